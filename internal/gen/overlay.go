package gen

import (
	"encoding/json"
	"fmt"
	"os"
	"os/exec"
	"path/filepath"
	"strings"
)

const mapIterLine = "\tr := uintptr(rand())\n"

// PrepareMapOverlay writes, under dir, a patched copy of the toolchain's
// runtime/map.go in which mapiterinit takes its random start from the
// VERIF_MAPSCHED schedule, plus the added runtime file, and returns the path of
// the -overlay JSON. It refuses (error) when the toolchain's map.go does not
// contain the expected line exactly once inside mapiterinit.
func PrepareMapOverlay(dir, verifDir string) (string, error) {
	out, err := exec.Command("go", "env", "GOROOT").Output()
	if err != nil {
		return "", err
	}
	goroot := strings.TrimSpace(string(out))
	mapGo := filepath.Join(goroot, "src", "runtime", "map.go")
	src, err := os.ReadFile(mapGo)
	if err != nil {
		return "", err
	}
	s := string(src)
	i := strings.Index(s, "func mapiterinit(")
	if i < 0 {
		return "", fmt.Errorf("runtime/map.go has no mapiterinit (unsupported toolchain)")
	}
	j := strings.Index(s[i:], mapIterLine)
	if j < 0 || strings.Count(s[i:], mapIterLine) != 1 {
		return "", fmt.Errorf("runtime/map.go: expected iteration-start line not found exactly once in mapiterinit (unsupported toolchain)")
	}
	patched := s[:i+j] + "\tr := verifMapIterRand(h)\n" + s[i+j+len(mapIterLine):]
	// pin the per-map hash seed so that bucket assignment of large maps is the same in every run
	patched = strings.ReplaceAll(patched, "h.hash0 = uint32(rand())", "h.hash0 = verifHash0()")
	if err := os.MkdirAll(dir, 0o755); err != nil {
		return "", err
	}
	pm := filepath.Join(dir, "map.go")
	if err := os.WriteFile(pm, []byte(patched), 0o644); err != nil {
		return "", err
	}
	added, err := os.ReadFile(filepath.Join(verifDir, "rtoverlay", "verif_mapsched.go.txt"))
	if err != nil {
		return "", err
	}
	pa := filepath.Join(dir, "verif_mapsched.go")
	if err := os.WriteFile(pa, added, 0o644); err != nil {
		return "", err
	}
	ov := map[string]map[string]string{"Replace": {mapGo: pm, filepath.Join(goroot, "src", "runtime", "verif_mapsched.go"): pa}}
	b, _ := json.Marshal(ov)
	oj := filepath.Join(dir, "overlay.json")
	return oj, os.WriteFile(oj, b, 0o644)
}
