// Package gen builds and runs the two protoc plugins (the plugin under test,
// rebuilt from /repo's working tree, and protoc-gen-gogo) as processes.
package gen

import (
	"bytes"
	"fmt"
	"os"
	"os/exec"
	"path/filepath"
	"strings"

	gproto "google.golang.org/protobuf/proto"
	"google.golang.org/protobuf/types/pluginpb"
)

// Repo is the repository under test.
var Repo = "/repo"

// GoEnv is the environment every go invocation gets.
func GoEnv(extra ...string) []string {
	env := []string{}
	for _, e := range os.Environ() {
		if strings.HasPrefix(e, "GOFLAGS=") || strings.HasPrefix(e, "GOPROXY=") || strings.HasPrefix(e, "GOSUMDB=") || strings.HasPrefix(e, "GOTOOLCHAIN=") {
			continue
		}
		env = append(env, e)
	}
	env = append(env, "GOFLAGS=-mod=mod", "GOPROXY=off", "GOSUMDB=off", "GOTOOLCHAIN=local", "CGO_ENABLED=0")
	return append(env, extra...)
}

// BuildPlugin builds the plugin under test from Repo's working tree into out.
// tags: build tags ("" for none); overlay: path of a -overlay file or "".
func BuildPlugin(out string, tags string, overlay string, extraEnv ...string) error {
	args := []string{"build", "-mod=readonly", "-o", out}
	if tags != "" {
		args = append(args, "-tags", tags)
	}
	if overlay != "" {
		args = append(args, "-overlay", overlay)
	}
	args = append(args, ".")
	cmd := exec.Command("go", args...)
	cmd.Dir = Repo
	env := GoEnv(extraEnv...)
	// /repo is built with its own module graph, read-only
	for i, e := range env {
		if e == "GOFLAGS=-mod=mod" {
			env[i] = "GOFLAGS="
		}
	}
	cmd.Env = env
	b, err := cmd.CombinedOutput()
	if err != nil {
		return fmt.Errorf("building plugin from %s: %v\n%s", Repo, err, b)
	}
	return nil
}

// BuildGogo builds protoc-gen-gogo (the version /repo pins) into out.
func BuildGogo(out string) error {
	cmd := exec.Command("go", "build", "-mod=readonly", "-o", out, "github.com/gogo/protobuf/protoc-gen-gogo")
	cmd.Dir = Repo
	env := GoEnv()
	for i, e := range env {
		if e == "GOFLAGS=-mod=mod" {
			env[i] = "GOFLAGS="
		}
	}
	cmd.Env = env
	b, err := cmd.CombinedOutput()
	if err != nil {
		return fmt.Errorf("building protoc-gen-gogo: %v\n%s", err, b)
	}
	return nil
}

// Result is one plugin execution.
type Result struct {
	ExitCode int
	Stdout   []byte
	Stderr   string
	// Resp is the decoded response (nil if stdout is not exactly one response).
	Resp *pluginpb.CodeGeneratorResponse
	// Clean: stdout re-marshals to itself (nothing but one serialized response).
	Clean     bool
	DecodeErr string
}

// Content returns the content of the single response file, or "".
func (r *Result) Content() string {
	if r.Resp == nil || len(r.Resp.File) != 1 {
		return ""
	}
	return r.Resp.File[0].GetContent()
}

// Run executes a plugin binary on a serialized request in working directory cwd.
func Run(bin string, req []byte, cwd string, extraEnv ...string) *Result {
	cmd := exec.Command(bin)
	cmd.Stdin = bytes.NewReader(req)
	var so, se bytes.Buffer
	cmd.Stdout, cmd.Stderr = &so, &se
	cmd.Dir = cwd
	cmd.Env = append([]string{"PATH=/usr/bin:/bin", "HOME=" + cwd, "GOMAXPROCS=1", "GOFLAGS=-mod=mod", "GOPROXY=off"}, extraEnv...)
	err := cmd.Run()
	res := &Result{Stdout: so.Bytes(), Stderr: se.String()}
	if err != nil {
		if ee, ok := err.(*exec.ExitError); ok {
			res.ExitCode = ee.ExitCode()
		} else {
			res.ExitCode = -1
			res.Stderr += "\n" + err.Error()
		}
	}
	resp := &pluginpb.CodeGeneratorResponse{}
	if e := gproto.Unmarshal(res.Stdout, resp); e != nil {
		res.DecodeErr = e.Error()
		return res
	}
	res.Resp = resp
	re, e := gproto.MarshalOptions{Deterministic: true}.Marshal(resp)
	if e == nil && bytes.Equal(re, res.Stdout) && len(resp.ProtoReflect().GetUnknown()) == 0 {
		res.Clean = true
	} else if e == nil {
		// field order of a hand-rolled marshaller may differ; accept if the
		// decoded message has no unknown fields and sizes agree
		res.Clean = len(re) == len(res.Stdout) && len(resp.ProtoReflect().GetUnknown()) == 0
	}
	return res
}

// Tools are the built binaries of one check run.
type Tools struct {
	Dir    string
	Plugin string
	Gogo   string
}

// Prepare builds the plugin from the working tree into dir and locates (or builds) protoc-gen-gogo.
func Prepare(dir string, verifDir string, gocache string) (*Tools, error) {
	t := &Tools{Dir: dir, Plugin: filepath.Join(dir, "protoc-gen-terraform")}
	if err := BuildPlugin(t.Plugin, "verif", "", "GOCACHE="+gocache); err != nil {
		return nil, err
	}
	t.Gogo = filepath.Join(verifDir, "bin", "protoc-gen-gogo")
	if _, err := os.Stat(t.Gogo); err != nil {
		t.Gogo = filepath.Join(dir, "protoc-gen-gogo")
		if err := BuildGogo(t.Gogo); err != nil {
			return nil, err
		}
	}
	return t, nil
}
