// Package dsl is the descriptor grammar of DESIGN.md §3: a small typed term
// language for proto3+gogoproto files, rendered independently to (a) the
// FileDescriptorProto handed to the plugins and (b) the oracle's expectation
// tree (package spec).
package dsl

import (
	"bytes"
	"compress/gzip"
	"fmt"
	"io/ioutil"
	"sort"
	"strings"

	"github.com/gogo/protobuf/gogoproto"
	"github.com/gogo/protobuf/proto"
	d "github.com/gogo/protobuf/protoc-gen-gogo/descriptor"
	plugin "github.com/gogo/protobuf/protoc-gen-gogo/plugin"
	gproto "google.golang.org/protobuf/proto"
	"google.golang.org/protobuf/reflect/protodesc"
	"google.golang.org/protobuf/types/known/durationpb"
	"google.golang.org/protobuf/types/known/timestamppb"
)

// T is a proto field type.
type T string

const (
	Double   T = "double"
	Float    T = "float"
	Int32    T = "int32"
	Int64    T = "int64"
	Uint32   T = "uint32"
	Uint64   T = "uint64"
	Sint32   T = "sint32"
	Sint64   T = "sint64"
	Fixed32  T = "fixed32"
	Fixed64  T = "fixed64"
	Sfixed32 T = "sfixed32"
	Sfixed64 T = "sfixed64"
	Bool     T = "bool"
	String   T = "string"
	Bytes    T = "bytes"
	Enum     T = "enum"
	Msg      T = "message"
)

// Scalars lists every scalar proto type.
var Scalars = []T{Double, Float, Int32, Int64, Uint32, Uint64, Sint32, Sint64, Fixed32, Fixed64, Sfixed32, Sfixed64, Bool, String, Bytes}

var protoType = map[T]d.FieldDescriptorProto_Type{
	Double: d.FieldDescriptorProto_TYPE_DOUBLE, Float: d.FieldDescriptorProto_TYPE_FLOAT,
	Int32: d.FieldDescriptorProto_TYPE_INT32, Int64: d.FieldDescriptorProto_TYPE_INT64,
	Uint32: d.FieldDescriptorProto_TYPE_UINT32, Uint64: d.FieldDescriptorProto_TYPE_UINT64,
	Sint32: d.FieldDescriptorProto_TYPE_SINT32, Sint64: d.FieldDescriptorProto_TYPE_SINT64,
	Fixed32: d.FieldDescriptorProto_TYPE_FIXED32, Fixed64: d.FieldDescriptorProto_TYPE_FIXED64,
	Sfixed32: d.FieldDescriptorProto_TYPE_SFIXED32, Sfixed64: d.FieldDescriptorProto_TYPE_SFIXED64,
	Bool: d.FieldDescriptorProto_TYPE_BOOL, String: d.FieldDescriptorProto_TYPE_STRING, Bytes: d.FieldDescriptorProto_TYPE_BYTES,
	Enum: d.FieldDescriptorProto_TYPE_ENUM, Msg: d.FieldDescriptorProto_TYPE_MESSAGE,
}

// GoScalar is the Go type protoc-gen-gogo uses for a scalar proto type.
var GoScalar = map[T]string{
	Double: "float64", Float: "float32", Int32: "int32", Int64: "int64", Uint32: "uint32", Uint64: "uint64",
	Sint32: "int32", Sint64: "int64", Fixed32: "uint32", Fixed64: "uint64", Sfixed32: "int32", Sfixed64: "int64",
	Bool: "bool", String: "string", Bytes: "bytes",
}

// Card is a field cardinality.
type Card int

const (
	Single Card = iota
	Repeated
	Map
)

const (
	Timestamp = "google.protobuf.Timestamp"
	Duration  = "google.protobuf.Duration"
)

// Field is one field declaration.
type Field struct {
	Name string
	Num  int32
	T    T
	Ref  string // message / enum name ("Leaf", "Outer.Inner", Timestamp, Duration)
	Card Card
	// MapKey is the key type of a Map field ("" = string).
	MapKey T
	Oneof  string // name of the oneof group the field belongs to

	Nullable   *bool
	Embed      bool
	JSONTag    *string
	StdTime    bool
	StdDur     bool
	CastType   string
	CastKey    string // gogoproto.castkey on a map field
	CustomType string
	// Comment is the leading comment in source form: the text of the lines
	// after "//", joined by "\n" (protoc form is derived from it).
	Comment string
}

// Message is a message declaration.
type Message struct {
	Name    string
	Fields  []*Field
	Oneofs  []string // declaration order of the oneof groups
	Nested  []*Message
	NEnums  []*EnumDecl
	Comment string
}

// EnumDecl is an enum declaration.
type EnumDecl struct {
	Name   string
	Values []string // value i has number i
}

// File is a proto3 file.
type File struct {
	Name       string // e.g. "c0001.proto"
	Pkg        string
	GoPackage  string // optional go_package option
	Messages   []*Message
	Enums      []*EnumDecl
	GettersOff bool // goproto_getters_all = false
	Imports    []string
	// Siblings are further files of the same proto and Go package that this file imports; their
	// messages and enums are referenced like local ones. A sibling's Name is a suffix ("common.proto")
	// appended to this file's base name; package and file options are inherited.
	Siblings []*File
}

// siblingFile returns sibling s completed with the inherited package, options and name.
func (f *File) siblingFile(s *File) *File {
	n := *s
	n.Pkg, n.GoPackage, n.GettersOff = f.Pkg, f.GoPackage, f.GettersOff
	n.Name = strings.TrimSuffix(f.Name, ".proto") + "_" + s.Name
	n.Siblings = nil
	return &n
}

// SiblingDescriptors renders the sibling files (dependencies of this file, in order).
func (f *File) SiblingDescriptors() []*d.FileDescriptorProto {
	var out []*d.FileDescriptorProto
	for _, s := range f.Siblings {
		out = append(out, f.siblingFile(s).Descriptor())
	}
	return out
}

func S(s string) *string { return &s }
func I(i int32) *int32   { return &i }
func B(b bool) *bool     { return &b }

// CamelCase is the oracle's own rendering of the Go name protoc-gen-gogo gives to
// a proto name: an underscore followed by a lower-case letter is dropped, the
// first letter, a letter after a dropped underscore and a lower-case letter
// that follows a digit are capitalised; other underscores (before a digit, an
// upper-case letter, or at the end) stay; a leading underscore becomes X.
func CamelCase(name string) string {
	if name == "" {
		return ""
	}
	isLow := func(b byte) bool { return b >= 'a' && b <= 'z' }
	isDig := func(b byte) bool { return b >= '0' && b <= '9' }
	var sb strings.Builder
	i := 0
	if name[0] == '_' {
		sb.WriteByte('X')
		i++
	}
	for ; i < len(name); i++ {
		c := name[i]
		if c == '_' && i+1 < len(name) && isLow(name[i+1]) {
			continue
		}
		if isDig(c) {
			sb.WriteByte(c)
			continue
		}
		if isLow(c) {
			c = c - 'a' + 'A'
		}
		sb.WriteByte(c)
		for i+1 < len(name) && isLow(name[i+1]) {
			i++
			sb.WriteByte(name[i])
		}
	}
	return sb.String()
}

// SnakeCase is the oracle's own snake_case: every letter is lower-cased; an
// underscore goes before an upper-case letter that follows a lower-case letter,
// and before the last letter of an upper-case run that is followed by a
// lower-case letter (acronym boundary); a run of underscores counts as one
// separator. lower_snake names are therefore returned unchanged, and names that
// mix the styles (max_sessionTTL, foo__bar) are split at every boundary.
func SnakeCase(name string) string {
	isUp := func(b byte) bool { return b >= 'A' && b <= 'Z' }
	isLow := func(b byte) bool { return b >= 'a' && b <= 'z' }
	var sb strings.Builder
	for i := 0; i < len(name); i++ {
		c := name[i]
		if c == '_' && i > 0 && name[i-1] == '_' {
			continue
		}
		if isUp(c) {
			if i > 0 && (isLow(name[i-1]) || (isUp(name[i-1]) && i+1 < len(name) && isLow(name[i+1]))) {
				sb.WriteByte('_')
			}
			c = c - 'A' + 'a'
		}
		sb.WriteByte(c)
	}
	return sb.String()
}

func jsonName(name string) string {
	var sb strings.Builder
	up := false
	for _, r := range name {
		if r == '_' {
			up = true
			continue
		}
		if up && r >= 'a' && r <= 'z' {
			r = r - 'a' + 'A'
		}
		up = false
		sb.WriteRune(r)
	}
	return sb.String()
}

// protocComment converts source-form comment text to protoc's leading_comments.
func protocComment(c string) string {
	if c == "" {
		return ""
	}
	lines := strings.Split(c, "\n")
	return strings.Join(lines, "\n") + "\n"
}

type renderer struct {
	f    *File
	locs []*d.SourceCodeInfo_Location
}

func (r *renderer) loc(path []int32, comment string) {
	if comment == "" {
		return
	}
	p := append([]int32{}, path...)
	r.locs = append(r.locs, &d.SourceCodeInfo_Location{Path: p, Span: []int32{0, 0, 0}, LeadingComments: S(protocComment(comment))})
}

func (r *renderer) typeName(ref string) string {
	if ref == Timestamp || ref == Duration {
		return "." + ref
	}
	return "." + r.f.Pkg + "." + ref
}

func (r *renderer) field(full string, m *d.DescriptorProto, oneofIdx map[string]int32, f *Field) *d.FieldDescriptorProto {
	pt := protoType[f.T]
	label := d.FieldDescriptorProto_LABEL_OPTIONAL
	out := &d.FieldDescriptorProto{Name: S(f.Name), Number: I(f.Num), Type: &pt, Label: &label, JsonName: S(jsonName(f.Name))}
	if f.T == Msg || f.T == Enum {
		out.TypeName = S(r.typeName(f.Ref))
	}
	switch f.Card {
	case Repeated:
		l := d.FieldDescriptorProto_LABEL_REPEATED
		out.Label = &l
	case Map:
		kt := f.MapKey
		if kt == "" {
			kt = String
		}
		kpt := protoType[kt]
		entryName := CamelCase(f.Name) + "Entry"
		value := &d.FieldDescriptorProto{Name: S("value"), Number: I(2), Type: &pt, Label: &label, JsonName: S("value"), TypeName: out.TypeName}
		entry := &d.DescriptorProto{
			Name: S(entryName),
			Field: []*d.FieldDescriptorProto{
				{Name: S("key"), Number: I(1), Type: &kpt, Label: &label, JsonName: S("key")},
				value,
			},
			Options: &d.MessageOptions{MapEntry: B(true)},
		}
		m.NestedType = append(m.NestedType, entry)
		mt := d.FieldDescriptorProto_TYPE_MESSAGE
		l := d.FieldDescriptorProto_LABEL_REPEATED
		out.Type = &mt
		out.Label = &l
		out.TypeName = S("." + r.f.Pkg + "." + full + "." + entryName)
	}
	if f.Oneof != "" {
		out.OneofIndex = I(oneofIdx[f.Oneof])
	}
	set := func(e *proto.ExtensionDesc, v interface{}) {
		if out.Options == nil {
			out.Options = &d.FieldOptions{}
		}
		if err := proto.SetExtension(out.Options, e, v); err != nil {
			panic(err)
		}
	}
	if f.Nullable != nil {
		set(gogoproto.E_Nullable, B(*f.Nullable))
	}
	if f.Embed {
		set(gogoproto.E_Embed, B(true))
	}
	if f.JSONTag != nil {
		set(gogoproto.E_Jsontag, S(*f.JSONTag))
	}
	if f.StdTime {
		set(gogoproto.E_Stdtime, B(true))
	}
	if f.StdDur {
		set(gogoproto.E_Stdduration, B(true))
	}
	if f.CastKey != "" {
		set(gogoproto.E_Castkey, S(f.CastKey))
	}
	if f.CastType != "" {
		set(gogoproto.E_Casttype, S(f.CastType))
	}
	if f.CustomType != "" {
		set(gogoproto.E_Customtype, S(f.CustomType))
	}
	return out
}

func (r *renderer) enum(e *EnumDecl) *d.EnumDescriptorProto {
	out := &d.EnumDescriptorProto{Name: S(e.Name)}
	for i, v := range e.Values {
		out.Value = append(out.Value, &d.EnumValueDescriptorProto{Name: S(v), Number: I(int32(i))})
	}
	return out
}

func (r *renderer) message(full string, path []int32, m *Message) *d.DescriptorProto {
	out := &d.DescriptorProto{Name: S(m.Name)}
	r.loc(path, m.Comment)
	oneofIdx := map[string]int32{}
	for i, o := range m.Oneofs {
		oneofIdx[o] = int32(i)
		out.OneofDecl = append(out.OneofDecl, &d.OneofDescriptorProto{Name: S(o)})
	}
	// protoc emits declared nested messages first, in declaration order, then
	// the synthesized map entries in field order (all are in nested_type in
	// source order; for our files nested declarations precede the fields).
	for i, n := range m.Nested {
		out.NestedType = append(out.NestedType, r.message(full+"."+n.Name, append(append([]int32{}, path...), 3, int32(i)), n))
	}
	for _, e := range m.NEnums {
		out.EnumType = append(out.EnumType, r.enum(e))
	}
	for i, f := range m.Fields {
		if f.Oneof != "" {
			if _, ok := oneofIdx[f.Oneof]; !ok {
				panic(fmt.Sprintf("dsl: %s.%s: unknown oneof %q", m.Name, f.Name, f.Oneof))
			}
		}
		out.Field = append(out.Field, r.field(full, out, oneofIdx, f))
		r.loc(append(append([]int32{}, path...), 2, int32(i)), f.Comment)
	}
	return out
}

// Descriptor renders the file to a FileDescriptorProto as protoc would
// deliver it (with SourceCodeInfo for the leading comments).
func (f *File) Descriptor() *d.FileDescriptorProto {
	r := &renderer{f: f}
	out := &d.FileDescriptorProto{
		Name:    S(f.Name),
		Package: S(f.Pkg),
		Syntax:  S("proto3"),
		Options: &d.FileOptions{},
	}
	out.Dependency = append(out.Dependency, "gogoproto/gogo.proto")
	uses := func(ref string) bool {
		found := false
		var walk func(ms []*Message)
		walk = func(ms []*Message) {
			for _, m := range ms {
				for _, fl := range m.Fields {
					if fl.Ref == ref {
						found = true
					}
				}
				walk(m.Nested)
			}
		}
		walk(f.Messages)
		return found
	}
	if uses(Timestamp) {
		out.Dependency = append(out.Dependency, "google/protobuf/timestamp.proto")
	}
	if uses(Duration) {
		out.Dependency = append(out.Dependency, "google/protobuf/duration.proto")
	}
	out.Dependency = append(out.Dependency, f.Imports...)
	for _, sb := range f.Siblings {
		out.Dependency = append(out.Dependency, f.siblingFile(sb).Name)
	}
	if f.GoPackage != "" {
		out.Options.GoPackage = S(f.GoPackage)
	}
	if f.GettersOff {
		if err := proto.SetExtension(out.Options, gogoproto.E_GoprotoGettersAll, B(false)); err != nil {
			panic(err)
		}
	}
	for i, m := range f.Messages {
		out.MessageType = append(out.MessageType, r.message(m.Name, []int32{4, int32(i)}, m))
	}
	for _, e := range f.Enums {
		out.EnumType = append(out.EnumType, r.enum(e))
	}
	sort.SliceStable(r.locs, func(i, j int) bool { return lessPath(r.locs[i].Path, r.locs[j].Path) })
	out.SourceCodeInfo = &d.SourceCodeInfo{Location: r.locs}
	return out
}

func lessPath(a, b []int32) bool {
	for i := 0; i < len(a) && i < len(b); i++ {
		if a[i] != b[i] {
			return a[i] < b[i]
		}
	}
	return len(a) < len(b)
}

func loadGogo(name, rename string) *d.FileDescriptorProto {
	gz := proto.FileDescriptor(name)
	if gz == nil {
		panic("dsl: no registered descriptor " + name)
	}
	r, err := gzip.NewReader(bytes.NewReader(gz))
	if err != nil {
		panic(err)
	}
	b, _ := ioutil.ReadAll(r)
	fd := &d.FileDescriptorProto{}
	if err := proto.Unmarshal(b, fd); err != nil {
		panic(err)
	}
	fd.Name = &rename
	return fd
}

var stdDeps []*d.FileDescriptorProto

// StdDeps returns descriptor.proto, gogo.proto, timestamp.proto and
// duration.proto as protoc would pass them.
func StdDeps() []*d.FileDescriptorProto {
	if stdDeps != nil {
		return stdDeps
	}
	conv := func(m gproto.Message) *d.FileDescriptorProto {
		b, err := gproto.Marshal(m)
		if err != nil {
			panic(err)
		}
		fd := &d.FileDescriptorProto{}
		if err := proto.Unmarshal(b, fd); err != nil {
			panic(err)
		}
		return fd
	}
	stdDeps = []*d.FileDescriptorProto{
		loadGogo("descriptor.proto", "google/protobuf/descriptor.proto"),
		loadGogo("gogo.proto", "gogoproto/gogo.proto"),
		conv(protodesc.ToFileDescriptorProto(timestamppb.File_google_protobuf_timestamp_proto)),
		conv(protodesc.ToFileDescriptorProto(durationpb.File_google_protobuf_duration_proto)),
	}
	// gogo.proto registered under "gogo.proto" imports "descriptor.proto" by that short name.
	for _, fd := range stdDeps {
		for i, dep := range fd.Dependency {
			if dep == "descriptor.proto" {
				fd.Dependency[i] = "google/protobuf/descriptor.proto"
			}
		}
	}
	return stdDeps
}

// Request builds a CodeGeneratorRequest for the file with the given plugin
// parameter; extra files are passed as additional (not generated) proto files
// placed before the file itself.
func Request(f *File, param string, extra ...*d.FileDescriptorProto) []byte {
	return RequestFD(f.Descriptor(), param, extra...)
}

// RequestFD is Request for an already rendered descriptor.
func RequestFD(fd *d.FileDescriptorProto, param string, extra ...*d.FileDescriptorProto) []byte {
	req := &plugin.CodeGeneratorRequest{
		FileToGenerate: []string{fd.GetName()},
		ProtoFile:      append(append(append([]*d.FileDescriptorProto{}, StdDeps()...), extra...), fd),
	}
	if param != "" {
		req.Parameter = S(param)
	}
	b, err := proto.Marshal(req)
	if err != nil {
		panic(err)
	}
	return b
}
