package dsl

import (
	"fmt"
	"strings"
)

// ProtoText pretty-prints the file term as .proto source (for replay files and reports).
func (f *File) ProtoText() string {
	var sb strings.Builder
	sb.WriteString("syntax = \"proto3\";\npackage " + f.Pkg + ";\nimport \"gogoproto/gogo.proto\";\n")
	if f.GoPackage != "" {
		fmt.Fprintf(&sb, "option go_package = %q;\n", f.GoPackage)
	}
	if f.GettersOff {
		sb.WriteString("option (gogoproto.goproto_getters_all) = false;\n")
	}
	for _, e := range f.Enums {
		writeEnum(&sb, e, "")
	}
	for _, m := range f.Messages {
		writeMsg(&sb, m, "")
	}
	for _, s := range f.Siblings {
		sf := f.siblingFile(s)
		fmt.Fprintf(&sb, "\n// ---- imported file %s (same package)\n", sf.Name)
		for _, e := range sf.Enums {
			writeEnum(&sb, e, "")
		}
		for _, m := range sf.Messages {
			writeMsg(&sb, m, "")
		}
	}
	return sb.String()
}

func writeEnum(sb *strings.Builder, e *EnumDecl, ind string) {
	fmt.Fprintf(sb, "%senum %s {", ind, e.Name)
	for i, v := range e.Values {
		fmt.Fprintf(sb, " %s = %d;", v, i)
	}
	sb.WriteString(" }\n")
}

func writeComment(sb *strings.Builder, c, ind string) {
	if c == "" {
		return
	}
	for _, l := range strings.Split(c, "\n") {
		sb.WriteString(ind + "//" + strings.TrimRight(l, "\r") + "\n")
	}
}

func fieldText(f *Field) string {
	t := string(f.T)
	if f.T == Msg || f.T == Enum {
		t = f.Ref
	}
	switch f.Card {
	case Repeated:
		t = "repeated " + t
	case Map:
		k := f.MapKey
		if k == "" {
			k = String
		}
		t = fmt.Sprintf("map<%s, %s>", k, t)
	}
	var opts []string
	if f.Nullable != nil {
		opts = append(opts, fmt.Sprintf("(gogoproto.nullable) = %v", *f.Nullable))
	}
	if f.Embed {
		opts = append(opts, "(gogoproto.embed) = true")
	}
	if f.JSONTag != nil {
		opts = append(opts, fmt.Sprintf("(gogoproto.jsontag) = %q", *f.JSONTag))
	}
	if f.StdTime {
		opts = append(opts, "(gogoproto.stdtime) = true")
	}
	if f.StdDur {
		opts = append(opts, "(gogoproto.stdduration) = true")
	}
	if f.CastKey != "" {
		opts = append(opts, fmt.Sprintf("(gogoproto.castkey) = %q", f.CastKey))
	}
	if f.CastType != "" {
		opts = append(opts, fmt.Sprintf("(gogoproto.casttype) = %q", f.CastType))
	}
	if f.CustomType != "" {
		opts = append(opts, fmt.Sprintf("(gogoproto.customtype) = %q", f.CustomType))
	}
	s := fmt.Sprintf("%s %s = %d", t, f.Name, f.Num)
	if len(opts) > 0 {
		s += " [" + strings.Join(opts, ", ") + "]"
	}
	return s + ";"
}

func writeMsg(sb *strings.Builder, m *Message, ind string) {
	writeComment(sb, m.Comment, ind)
	fmt.Fprintf(sb, "%smessage %s {\n", ind, m.Name)
	in := ind + "  "
	for _, n := range m.Nested {
		writeMsg(sb, n, in)
	}
	for _, e := range m.NEnums {
		writeEnum(sb, e, in)
	}
	open := ""
	for _, f := range m.Fields {
		if f.Oneof != open {
			if open != "" {
				sb.WriteString(in + "}\n")
			}
			if f.Oneof != "" {
				fmt.Fprintf(sb, "%soneof %s {\n", in, f.Oneof)
			}
			open = f.Oneof
		}
		fi := in
		if open != "" {
			fi += "  "
		}
		writeComment(sb, f.Comment, fi)
		sb.WriteString(fi + fieldText(f) + "\n")
	}
	if open != "" {
		sb.WriteString(in + "}\n")
	}
	sb.WriteString(ind + "}\n")
}
