package dsl

import (
	"fmt"
	"sort"
	"strings"

	"verif/spec"
)

// SchemaType mirrors the time_type / duration_type configuration entries.
type SchemaType struct {
	Type, ValueType, CastTo, CastFrom, Constructor string
}

// Injected mirrors an injected_fields entry.
type Injected struct {
	Name, Type                   string
	Required, Computed, Optional bool
	PlanModifiers, Validators    []string
}

// Config is the configuration term (DESIGN.md §3.5).
type Config struct {
	Types               []string
	Sort                bool
	TargetPkg           string
	DefaultPkg          string
	ImportPathOverrides map[string]string
	Exclude             []string
	Required            []string
	Computed            []string
	Sensitive           []string
	NameOverrides       map[string]string
	Validators          map[string][]string
	PlanModifiers       map[string][]string
	CustomTypes         map[string]string
	Suffixes            map[string]string
	UseStateForUnknown  bool
	Injected            map[string][]Injected
	TimeType            *SchemaType
	DurationType        *SchemaType
	DurationCustomType  string
}

// Clone returns a deep copy.
func (c *Config) Clone() *Config {
	o := *c
	cp := func(s []string) []string { return append([]string(nil), s...) }
	cpm := func(m map[string]string) map[string]string {
		if m == nil {
			return nil
		}
		r := map[string]string{}
		for k, v := range m {
			r[k] = v
		}
		return r
	}
	cpl := func(m map[string][]string) map[string][]string {
		if m == nil {
			return nil
		}
		r := map[string][]string{}
		for k, v := range m {
			r[k] = cp(v)
		}
		return r
	}
	o.Types, o.Exclude, o.Required, o.Computed, o.Sensitive = cp(c.Types), cp(c.Exclude), cp(c.Required), cp(c.Computed), cp(c.Sensitive)
	o.ImportPathOverrides, o.NameOverrides, o.CustomTypes, o.Suffixes = cpm(c.ImportPathOverrides), cpm(c.NameOverrides), cpm(c.CustomTypes), cpm(c.Suffixes)
	o.Validators, o.PlanModifiers = cpl(c.Validators), cpl(c.PlanModifiers)
	if c.Injected != nil {
		o.Injected = map[string][]Injected{}
		for k, v := range c.Injected {
			o.Injected[k] = append([]Injected(nil), v...)
		}
	}
	return &o
}

// TFX is the import path of the harness' Terraform support package.
const TFX = "verif/tfx"

// StdTypes sets the harness time and duration types and the custom duration cast type.
func (c *Config) StdTypes() *Config {
	c.TimeType = &SchemaType{Type: TFX + ".TimeType", ValueType: TFX + ".TimeValue", CastTo: "time.Time", CastFrom: "time.Time", Constructor: TFX + ".UseRFC3339Time()"}
	c.DurationType = &SchemaType{Type: TFX + ".DurationType", ValueType: TFX + ".DurationValue", CastTo: "time.Duration", CastFrom: "time.Duration"}
	c.DurationCustomType = "Duration"
	return c
}

func has(l []string, k string) bool {
	for _, x := range l {
		if x == k {
			return true
		}
	}
	return false
}

// YAMLOrder optionally permutes the emission order of configuration entries.
type YAMLOrder struct {
	// Keys is the order of the top level keys; keys not listed follow in default order.
	Keys []string
	// Perm maps a top-level key to a permutation of its entries (indices into the sorted entry list).
	Perm map[string][]int
}

func q(s string) string { return fmt.Sprintf("%q", s) }

func permuted(n int, p []int) []int {
	if len(p) == n {
		return p
	}
	r := make([]int, n)
	for i := range r {
		r[i] = i
	}
	return r
}

// YAML renders the configuration file. only, when non-nil, restricts the
// emitted top-level keys to that set (the rest travels as parameters).
func (c *Config) YAML(ord *YAMLOrder, only map[string]bool) string {
	if ord == nil {
		ord = &YAMLOrder{}
	}
	sections := map[string]string{}
	var defOrder []string
	add := func(key, body string) {
		if only != nil && !only[key] {
			return
		}
		sections[key] = body
		defOrder = append(defOrder, key)
	}
	list := func(key string, l []string) {
		if len(l) == 0 {
			return
		}
		var sb strings.Builder
		sb.WriteString(key + ":\n")
		for _, i := range permuted(len(l), ord.Perm[key]) {
			sb.WriteString("  - " + q(l[i]) + "\n")
		}
		add(key, sb.String())
	}
	smap := func(key string, m map[string]string) {
		if len(m) == 0 {
			return
		}
		ks := sortedKeys(m)
		var sb strings.Builder
		sb.WriteString(key + ":\n")
		for _, i := range permuted(len(ks), ord.Perm[key]) {
			sb.WriteString("  " + q(ks[i]) + ": " + q(m[ks[i]]) + "\n")
		}
		add(key, sb.String())
	}
	lmap := func(key string, m map[string][]string) {
		if len(m) == 0 {
			return
		}
		ks := make([]string, 0, len(m))
		for k := range m {
			ks = append(ks, k)
		}
		sort.Strings(ks)
		var sb strings.Builder
		sb.WriteString(key + ":\n")
		for _, i := range permuted(len(ks), ord.Perm[key]) {
			sb.WriteString("  " + q(ks[i]) + ":\n")
			for _, v := range m[ks[i]] {
				sb.WriteString("    - " + q(v) + "\n")
			}
		}
		add(key, sb.String())
	}
	st := func(key string, t *SchemaType) {
		if t == nil {
			return
		}
		s := key + ":\n  type: " + q(t.Type) + "\n  value_type: " + q(t.ValueType) + "\n  cast_to_type: " + q(t.CastTo) + "\n  cast_from_type: " + q(t.CastFrom) + "\n"
		if t.Constructor != "" {
			s += "  type_constructor: " + q(t.Constructor) + "\n"
		}
		add(key, s)
	}
	list("types", c.Types)
	if c.Sort {
		add("sort", "sort: true\n")
	}
	if c.TargetPkg != "" {
		add("target_package_name", "target_package_name: "+q(c.TargetPkg)+"\n")
	}
	if c.DefaultPkg != "" {
		add("default_package_name", "default_package_name: "+q(c.DefaultPkg)+"\n")
	}
	if c.DurationCustomType != "" {
		add("duration_custom_type", "duration_custom_type: "+q(c.DurationCustomType)+"\n")
	}
	if c.UseStateForUnknown {
		add("use_state_for_unknown_by_default", "use_state_for_unknown_by_default: true\n")
	}
	smap("import_path_overrides", c.ImportPathOverrides)
	list("exclude_fields", c.Exclude)
	list("required_fields", c.Required)
	list("computed_fields", c.Computed)
	list("sensitive_fields", c.Sensitive)
	smap("name_overrides", c.NameOverrides)
	lmap("validators", c.Validators)
	lmap("plan_modifiers", c.PlanModifiers)
	smap("custom_types", c.CustomTypes)
	smap("suffixes", c.Suffixes)
	st("time_type", c.TimeType)
	st("duration_type", c.DurationType)
	if len(c.Injected) > 0 {
		ks := make([]string, 0, len(c.Injected))
		for k := range c.Injected {
			ks = append(ks, k)
		}
		sort.Strings(ks)
		var sb strings.Builder
		sb.WriteString("injected_fields:\n")
		for _, i := range permuted(len(ks), ord.Perm["injected_fields"]) {
			sb.WriteString("  " + q(ks[i]) + ":\n")
			ents := c.Injected[ks[i]]
			for _, j := range permuted(len(ents), ord.Perm["injected_fields/"+ks[i]]) {
				e := ents[j]
				sb.WriteString("    - name: " + q(e.Name) + "\n      type: " + q(e.Type) + "\n")
				if e.Required {
					sb.WriteString("      required: true\n")
				}
				if e.Computed {
					sb.WriteString("      computed: true\n")
				}
				if e.Optional {
					sb.WriteString("      optional: true\n")
				}
				if len(e.Validators) > 0 {
					sb.WriteString("      validators:\n")
					for _, v := range e.Validators {
						sb.WriteString("        - " + q(v) + "\n")
					}
				}
				if len(e.PlanModifiers) > 0 {
					sb.WriteString("      plan_modifiers:\n")
					for _, v := range e.PlanModifiers {
						sb.WriteString("        - " + q(v) + "\n")
					}
				}
			}
		}
		add("injected_fields", sb.String())
	}
	var out strings.Builder
	out.WriteString("---\n")
	done := map[string]bool{}
	for _, k := range ord.Keys {
		if s, ok := sections[k]; ok && !done[k] {
			out.WriteString(s)
			done[k] = true
		}
	}
	for _, k := range defOrder {
		if !done[k] {
			out.WriteString(sections[k])
		}
	}
	return out.String()
}

func sortedKeys(m map[string]string) []string {
	ks := make([]string, 0, len(m))
	for k := range m {
		ks = append(ks, k)
	}
	sort.Strings(ks)
	return ks
}

// ---------------------------------------------------------------------------
// Spec computation

// Unmappable is returned by BuildSpec when a reachable non-excluded field
// cannot be mapped; the plugin must then generate nothing for the root.
type Unmappable struct{ Path, Why string }

func (u *Unmappable) Error() string { return u.Path + ": " + u.Why }

type specBuilder struct {
	f     *File
	c     *Config
	msgs  map[string]*Message // full proto name relative to package -> message
	enums map[string]bool
	depth int
}

func (f *File) index() (map[string]*Message, map[string]bool) {
	msgs := map[string]*Message{}
	enums := map[string]bool{}
	var walk func(prefix string, ms []*Message)
	walk = func(prefix string, ms []*Message) {
		for _, m := range ms {
			full := prefix + m.Name
			msgs[full] = m
			for _, e := range m.NEnums {
				enums[full+"."+e.Name] = true
			}
			walk(full+".", m.Nested)
		}
	}
	walk("", f.Messages)
	for _, e := range f.Enums {
		enums[e.Name] = true
	}
	for _, sb := range f.Siblings {
		walk("", sb.Messages)
		for _, e := range sb.Enums {
			enums[e.Name] = true
		}
	}
	return msgs, enums
}

// GoTypeName is the Go name gogo gives to a (possibly nested) message or enum.
func GoTypeName(ref string) string { return strings.ReplaceAll(ref, ".", "_") }

// BuildSpec computes the expectation tree of root under configuration c.
func BuildSpec(f *File, c *Config, root string) (*spec.Msg, error) {
	b := &specBuilder{f: f, c: c}
	b.msgs, b.enums = f.index()
	m, ok := b.msgs[root]
	if !ok {
		return nil, fmt.Errorf("no message %s", root)
	}
	return b.message(root, m, root)
}

func tokens(comment string) []string { return strings.Fields(comment) }

func (b *specBuilder) message(full string, m *Message, path string) (*spec.Msg, error) {
	b.depth++
	defer func() { b.depth-- }()
	if b.depth > 12 {
		return nil, fmt.Errorf("message graph too deep (recursive?) at %s", path)
	}
	out := &spec.Msg{Proto: m.Name, GoName: GoTypeName(full), Path: path}
	for _, o := range m.Oneofs {
		out.Oneofs = append(out.Oneofs, CamelCase(o))
	}
	for _, inj := range b.c.Injected[path] {
		out.Injected = append(out.Injected, spec.Injected{Name: inj.Name, Type: inj.Type, Required: inj.Required, Computed: inj.Computed, Optional: inj.Optional, Validators: inj.Validators, PlanModifiers: inj.PlanModifiers})
	}
	if len(m.Fields) == 0 {
		out.Empty = true
		out.Attrs = []*spec.Attr{{
			Name: "active", Go: "", Path: path + ".active", Kind: spec.Prim, TF: "bool", GoT: "bool", Placeholder: true, Computed: true,
			DescTokens: tokens("Automatically generated field preventing empty message errors"),
		}}
		return out, nil
	}
	for _, fl := range m.Fields {
		as, ex, err := b.field(full, m, path, fl)
		if err != nil {
			return nil, err
		}
		out.Attrs = append(out.Attrs, as...)
		out.Excluded = append(out.Excluded, ex...)
	}
	if len(out.Attrs) == 0 {
		// every field is excluded (or is an embedded message that contributes nothing): the message
		// is generated like a message with no fields
		out.Empty = true
		out.AllExcluded = true
		out.Attrs = []*spec.Attr{{
			Name: "active", Go: "", Path: path + ".active", Kind: spec.Prim, TF: "bool", GoT: "bool", Placeholder: true, Computed: true,
			DescTokens: tokens("Automatically generated field preventing empty message errors"),
		}}
		return out, nil
	}
	if b.c.Sort {
		sort.SliceStable(out.Attrs, func(i, j int) bool { return out.Attrs[i].Go < out.Attrs[j].Go })
	}
	return out, nil
}

func (b *specBuilder) field(full string, m *Message, mpath string, fl *Field) ([]*spec.Attr, []spec.Excluded, error) {
	path := mpath + "." + fl.Name
	if fl.Embed {
		path = m.Name
	}
	typeKey := m.Name + "." + fl.Name
	goName := CamelCase(fl.Name)
	if fl.Embed {
		goName = GoTypeName(fl.Ref)
		if i := strings.LastIndex(goName, "."); i >= 0 {
			goName = goName[i+1:]
		}
	}
	flag := func(l []string) bool { return has(l, typeKey) || has(l, path) }
	if flag(b.c.Exclude) {
		ex := spec.Excluded{Go: goName}
		if fl.Oneof != "" {
			ex.Oneof = CamelCase(fl.Oneof)
		}
		return nil, []spec.Excluded{ex}, nil
	}
	a := &spec.Attr{Go: goName, Path: path, TypeKey: typeKey}
	// name
	if v, ok := b.c.NameOverrides[path]; ok {
		a.Name = v
	} else if v, ok := b.c.NameOverrides[typeKey]; ok {
		a.Name = v
	} else if fl.JSONTag != nil && strings.Split(*fl.JSONTag, ",")[0] != "-" && strings.Split(*fl.JSONTag, ",")[0] != "" {
		a.Name = strings.Split(*fl.JSONTag, ",")[0]
	} else {
		a.Name = SnakeCase(fl.Name)
	}
	a.Required = flag(b.c.Required)
	a.Computed = flag(b.c.Computed)
	a.Sensitive = flag(b.c.Sensitive)
	if v, ok := b.c.Validators[path]; ok {
		a.Validators = v
	} else if v, ok := b.c.Validators[typeKey]; ok {
		a.Validators = v
	}
	if v, ok := b.c.PlanModifiers[path]; ok {
		a.PlanModifiers = v
	} else if v, ok := b.c.PlanModifiers[typeKey]; ok {
		a.PlanModifiers = v
	} else if b.c.UseStateForUnknown && a.Computed {
		a.PlanModifiers = []string{"github.com/hashicorp/terraform-plugin-framework/tfsdk.UseStateForUnknown()"}
	}
	a.DescTokens = tokens(fl.Comment)

	isTime := fl.StdTime || fl.Ref == Timestamp || fl.CastType == "time.Time"
	isDur := fl.StdDur || fl.Ref == Duration || fl.CastType == "time.Duration" || (b.c.DurationCustomType != "" && fl.CastType == b.c.DurationCustomType)
	msgNullable := fl.Nullable == nil || *fl.Nullable
	switch {
	case isTime:
		if b.c.TimeType == nil {
			return nil, nil, &Unmappable{path, "time without time_type"}
		}
		a.TF, a.GoT = "time", "time"
		a.Ptr = fl.T == Msg && msgNullable
		a.ByValueTemporal = !a.Ptr
	case isDur:
		if b.c.DurationType == nil {
			return nil, nil, &Unmappable{path, "duration without duration_type"}
		}
		a.TF, a.GoT = "duration", "duration"
		a.Ptr = fl.T == Msg && msgNullable
		a.ByValueTemporal = !a.Ptr
		if fl.CastType != "" {
			a.GoT = "cast:" + fl.CastType
		}
	case fl.T == Msg:
		a.TF, a.GoT = "object", "msg"
		a.Ptr = msgNullable
	case fl.T == Enum:
		a.TF, a.GoT = "int64", "enum"
	default:
		g := GoScalar[fl.T]
		a.GoT = g
		switch fl.T {
		case Double, Float:
			a.TF = "float64"
		case Bool:
			a.TF = "bool"
		case String, Bytes:
			a.TF = "string"
		default:
			a.TF = "int64"
		}
		if fl.CastType != "" {
			a.GoT = "cast:" + fl.CastType
		}
	}
	if fl.Card == Map && fl.MapKey != "" && fl.MapKey != String {
		return nil, nil, &Unmappable{path, "non-string map key"}
	}
	if fl.Oneof != "" {
		a.Oneof = CamelCase(fl.Oneof)
		a.OneofWrap = GoTypeName(full) + "_" + CamelCase(fl.Name)
		if fl.T == Msg {
			a.Ptr = true
		}
	}
	custom := fl.CustomType
	if v, ok := b.c.CustomTypes[path]; ok {
		custom = v
	}
	if a.TF == "object" {
		sub, ok := b.msgs[fl.Ref]
		if !ok {
			return nil, nil, fmt.Errorf("%s: unknown message %s", path, fl.Ref)
		}
		if fl.Card == Single && fl.Embed {
			// children take the place of the field; built with the embedded field's path
			sm, err := b.message(fl.Ref, sub, path)
			if err != nil {
				return nil, nil, err
			}
			step := spec.EmbedStep{Go: goName, Nullable: a.Ptr}
			if sm.AllExcluded {
				// an embedded message all of whose fields are excluded adds nothing to its parent
				sm.Attrs = nil
			}
			for _, ch := range sm.Attrs {
				ch.Embed = append([]spec.EmbedStep{step}, ch.Embed...)
			}
			var ex []spec.Excluded
			for _, e := range sm.Excluded {
				ex = append(ex, spec.Excluded{Go: e.Go, Oneof: e.Oneof, Embed: append([]spec.EmbedStep{step}, e.Embed...)})
			}
			return sm.Attrs, ex, nil
		}
		sm, err := b.message(fl.Ref, sub, path)
		if err != nil {
			return nil, nil, err
		}
		a.Msg = sm
	}
	switch {
	case custom != "":
		a.Kind = spec.Custom
		if s, ok := b.c.Suffixes[custom]; ok {
			a.Suffix = s
		} else {
			a.Suffix = strings.ReplaceAll(strings.ReplaceAll(custom, "/", ""), ".", "")
		}
		a.Msg = nil
	case fl.Card == Map && a.TF == "object":
		a.Kind = spec.ObjMap
	case fl.Card == Map:
		a.Kind = spec.Map
	case fl.Card == Repeated && a.TF == "object":
		a.Kind = spec.ObjList
	case fl.Card == Repeated:
		a.Kind = spec.List
	case a.TF == "object":
		a.Kind = spec.Obj
	default:
		a.Kind = spec.Prim
	}
	return []*spec.Attr{a}, nil, nil
}
