// Package scratch synthesizes the throw-away Go module in which the real
// protoc-gen-gogo output and the real plugin output of many cases are compiled
// together with the explorer library, and runs the resulting binary sharded
// over worker processes.
package scratch

import (
	"bytes"
	"encoding/json"
	"fmt"
	"io/ioutil"
	"os"
	"os/exec"
	"path/filepath"
	"regexp"
	"sort"
	"strconv"
	"strings"
	"sync"
	"time"

	"verif/internal/dsl"
	"verif/internal/gen"
	"verif/internal/space"
	"verif/spec"
)

// Built is a generated case.
type Built struct {
	*space.Case
	Param string
	YAML  string
	Gogo  *gen.Result
	// GogoSiblings: protoc-gen-gogo's output for the sibling files of the package
	GogoSiblings []string
	TF           *gen.Result
	Specs        map[string]*spec.Msg // per selected root that is mappable
	Unmapped     map[string]string    // root -> reason, for roots the oracle says cannot be mapped
	// Emitted: the three functions of root are present in the output
	Emitted    map[string]bool
	Dir        string // package dir inside the module
	ImportPath string // import path of the package holding reg.go
	CompileErr string
	Skip       string // reason the case is not compiled (gogo rejected it, plugin failed, ...)
	GogoMs     int64
	TFMs       int64
}

// Module is a scratch module.
type Module struct {
	Root     string // directory
	VerifDir string
	Tools    *gen.Tools
	Cases    []*Built
	GoCache  string
	// ModName is the module path of the scratch module ("scratch" unless set before Generate)
	ModName string
}

func (m *Module) modName() string {
	if m.ModName == "" {
		return "scratch"
	}
	return m.ModName
}

// New creates an empty scratch module under a fresh temporary directory.
func New(verifDir string) (*Module, error) {
	base := os.Getenv("VERIF_SCRATCH")
	if base == "" {
		base = os.TempDir()
	}
	root, err := ioutil.TempDir(base, "pgtmc-")
	if err != nil {
		return nil, err
	}
	m := &Module{Root: root, VerifDir: verifDir}
	if err := os.MkdirAll(filepath.Join(root, "mod", "cases"), 0o755); err != nil {
		return nil, err
	}
	if err := os.MkdirAll(filepath.Join(root, "work"), 0o755); err != nil {
		return nil, err
	}
	return m, nil
}

// Cleanup removes the scratch tree.
func (m *Module) Cleanup() {
	if os.Getenv("VERIF_KEEP") != "" {
		fmt.Fprintln(os.Stderr, "keeping scratch", m.Root)
		return
	}
	// module cache style read-only files do not occur here; plain removal suffices
	os.RemoveAll(m.Root)
}

// ModDir is the module directory.
func (m *Module) ModDir() string { return filepath.Join(m.Root, "mod") }

// WorkDir is an empty directory used as cwd of plugin runs.
func (m *Module) WorkDir() string { return filepath.Join(m.Root, "work") }

// setupCache prepares a private GOCACHE seeded (by hard links) from the warm
// dependency cache built by setup, so the one-off generated packages never
// accumulate in a shared cache.
// Cache returns the private GOCACHE of the module.
func (m *Module) Cache() string {
	m.setupCache()
	return m.GoCache
}

func (m *Module) setupCache() {
	if m.GoCache != "" {
		return
	}
	m.GoCache = filepath.Join(m.Root, "gocache")
	warm := filepath.Join(m.VerifDir, ".cache", "gocache")
	if _, err := os.Stat(warm); err == nil {
		if err := exec.Command("cp", "-al", warm, m.GoCache).Run(); err == nil {
			return
		}
		os.RemoveAll(m.GoCache)
	}
	os.MkdirAll(m.GoCache, 0o755)
}

// Param renders the plugin parameter for a config file path.
func Param(cfgPath string) string { return "config=" + cfgPath }

var pkgClause = regexp.MustCompile(`(?m)^package (\w+)`)

var funcRe = regexp.MustCompile(`(?m)^func (GenSchema\w+|Copy\w+FromTerraform|Copy\w+ToTerraform)\(`)

// TopFuncs returns the names of the top-level generated functions of a source text.
func TopFuncs(src string) []string {
	var out []string
	for _, m := range funcRe.FindAllStringSubmatch(src, -1) {
		out = append(out, m[1])
	}
	sort.Strings(out)
	return out
}

// Generate runs protoc-gen-gogo and the plugin for every case (in parallel)
// and writes the package directories.
func (m *Module) Generate(cases []*space.Case) []*Built {
	m.Cases = make([]*Built, len(cases))
	var wg sync.WaitGroup
	sem := make(chan struct{}, 16)
	for i, c := range cases {
		if c.ID == "" {
			c.ID = fmt.Sprintf("c%04d", i)
		}
		wg.Add(1)
		go func(i int, c *space.Case) {
			defer wg.Done()
			sem <- struct{}{}
			defer func() { <-sem }()
			m.Cases[i] = m.generateOne(c)
		}(i, c)
	}
	wg.Wait()
	return m.Cases
}

// FinalizeCase fills in the identifiers that depend on the case id.
func (m *Module) FinalizeCase(c *space.Case) {
	c.File.Pkg = c.ID + c.ProtoPkgSuffix
	c.File.Name = c.ProtoDir + c.ID + ".proto"
	if c.Separate {
		imp := m.modName() + "/cases/" + c.ID + "/" + structDir(c)
		c.Cfg.TargetPkg = TFPkg(c)
		if c.Variant == "short+override" {
			short := "structs"
			if c.ShortDefaultPkg != "" {
				short = c.ShortDefaultPkg
			}
			c.Cfg.DefaultPkg = short
			c.Cfg.ImportPathOverrides = map[string]string{short: imp}
		} else {
			c.Cfg.DefaultPkg = imp
		}
	}
}

// TFPkg is the name of the target package of a case in the separate layout.
func TFPkg(c *space.Case) string {
	if c.TFPkg != "" {
		return c.TFPkg
	}
	return "tfschema"
}

func tfDirOf(c *space.Case) string {
	if c.TFDir != "" {
		return c.TFDir
	}
	return TFPkg(c)
}

func structDir(c *space.Case) string {
	if c.StructImport != "" {
		return c.StructImport
	}
	return "structs"
}

func (m *Module) generateOne(c *space.Case) *Built {
	b := &Built{Case: c, Specs: map[string]*spec.Msg{}, Unmapped: map[string]string{}, Emitted: map[string]bool{}}
	m.FinalizeCase(c)
	dir := filepath.Join(m.ModDir(), "cases", c.ID)
	b.Dir = dir
	os.MkdirAll(dir, 0o755)
	fd := c.File.Descriptor()
	t0 := time.Now()
	extra := c.File.SiblingDescriptors()
	b.Gogo = gen.Run(m.Tools.Gogo, dsl.RequestFD(fd, "", extra...), m.WorkDir())
	for i, sfd := range extra {
		// the sibling files of the package are compiled by protoc-gen-gogo as well
		sr := gen.Run(m.Tools.Gogo, dsl.RequestFD(sfd, "", extra[:i]...), m.WorkDir())
		if sr.ExitCode != 0 || sr.Resp == nil || sr.Resp.Error != nil || len(sr.Resp.File) != 1 {
			b.Skip = "protoc-gen-gogo rejects the sibling descriptor: " + lastLine(sr.Stderr) + " " + sr.Resp.GetError()
			return b
		}
		b.GogoSiblings = append(b.GogoSiblings, sr.Content())
	}
	b.GogoMs = time.Since(t0).Milliseconds()
	if b.Gogo.ExitCode != 0 || b.Gogo.Resp == nil || b.Gogo.Resp.Error != nil || len(b.Gogo.Resp.File) != 1 {
		b.Skip = "protoc-gen-gogo rejects the descriptor: " + lastLine(b.Gogo.Stderr) + " " + b.Gogo.Resp.GetError()
		return b
	}
	b.YAML = c.Cfg.YAML(nil, nil)
	cfgPath := filepath.Join(dir, "config.yaml")
	ioutil.WriteFile(cfgPath, []byte(b.YAML), 0o644)
	b.Param = Param(cfgPath)
	req := dsl.RequestFD(fd, b.Param, extra...)
	if os.Getenv("VERIF_KEEP") != "" {
		ioutil.WriteFile(filepath.Join(dir, "request.bin"), req, 0o644)
	}
	t0 = time.Now()
	b.TF = gen.Run(m.Tools.Plugin, req, m.WorkDir())
	b.TFMs = time.Since(t0).Milliseconds()
	for _, r := range c.Cfg.Types {
		s, err := dsl.BuildSpec(c.File, c.Cfg, r)
		if err != nil {
			b.Unmapped[r] = err.Error()
			continue
		}
		b.Specs[r] = s
	}
	src := b.TF.Content()
	have := map[string]bool{}
	for _, f := range TopFuncs(src) {
		have[f] = true
	}
	for _, r := range c.Cfg.Types {
		b.Emitted[r] = have["GenSchema"+r] && have["Copy"+r+"FromTerraform"] && have["Copy"+r+"ToTerraform"]
	}
	if src == "" {
		b.Skip = "plugin produced no file"
		return b
	}
	m.writePackage(b)
	return b
}

func lastLine(s string) string {
	ls := strings.Split(strings.TrimSpace(s), "\n")
	return ls[len(ls)-1]
}

const structSupport = `
import "time"

type Duration int64

func (d Duration) String() string { return time.Duration(d).String() }

type MyString string

// Slot is an integer-kinded map key cast type
type Slot int32

// HumanDuration is a string-kinded cast type whose name merely ends in "Duration"
type HumanDuration string
type MyInt int32
type BoolCustom bool
type StrCustom string
type BytesCustom []byte
`

// customSuffixes collects the hook suffixes the specs of a case expect.
func customSuffixes(specs map[string]*spec.Msg) []string {
	set := map[string]bool{}
	var walk func(m *spec.Msg)
	walk = func(m *spec.Msg) {
		for _, a := range m.Attrs {
			if a.Kind == spec.Custom {
				set[a.Suffix] = true
			}
			if a.Msg != nil {
				walk(a.Msg)
			}
		}
	}
	for _, s := range specs {
		walk(s)
	}
	var out []string
	for s := range set {
		out = append(out, s)
	}
	sort.Strings(out)
	return out
}

func (m *Module) writePackage(b *Built) {
	c := b.Case
	pbPkg := c.ID
	// the struct package is named by protoc-gen-gogo (go_package may rename it)
	if m := pkgClause.FindStringSubmatch(b.Gogo.Content()); m != nil {
		pbPkg = m[1]
	}
	structsDir, tfDir := b.Dir, b.Dir
	tfPkg := pbPkg
	b.ImportPath = m.modName() + "/cases/" + c.ID
	if c.Separate {
		structsDir = filepath.Join(b.Dir, structDir(c))
		tfDir = filepath.Join(b.Dir, tfDirOf(c))
		tfPkg = TFPkg(c)
		b.ImportPath += "/" + tfDirOf(c)
		os.MkdirAll(structsDir, 0o755)
		os.MkdirAll(tfDir, 0o755)
	}
	ioutil.WriteFile(filepath.Join(structsDir, "x.pb.go"), []byte(b.Gogo.Content()), 0o644)
	for i, src := range b.GogoSiblings {
		ioutil.WriteFile(filepath.Join(structsDir, fmt.Sprintf("x_sibling%d.pb.go", i)), []byte(src), 0o644)
	}
	ioutil.WriteFile(filepath.Join(structsDir, "support.go"), []byte("package "+pbPkg+"\n"+structSupport), 0o644)
	ioutil.WriteFile(filepath.Join(tfDir, "x_terraform.go"), []byte(b.TF.Content()), 0o644)

	// hooks
	var hk bytes.Buffer
	fmt.Fprintf(&hk, "package %s\n\nimport (\n\t\"context\"\n\t\"fmt\"\n\n\t\"github.com/hashicorp/terraform-plugin-framework/attr\"\n\t\"github.com/hashicorp/terraform-plugin-framework/diag\"\n\t\"github.com/hashicorp/terraform-plugin-framework/tfsdk\"\n\t\"verif/tfx\"\n)\n\nvar _ = context.Background\nvar _ attr.Value\nvar _ diag.Diagnostics\nvar _ tfsdk.Attribute\nvar _ = tfx.V\n\n// validators and plan modifiers of the target package itself (the configuration names them unqualified)\nvar LocalValidator tfsdk.AttributeValidator = tfx.Validator{ID: 77, Form: \"LocalValidator\"}\n\nfunc LocalV(n int) tfsdk.AttributeValidator { return tfx.Validator{ID: n, Form: fmt.Sprintf(\"LocalV(%%d)\", n)} }\n\nvar LocalModifier tfsdk.AttributePlanModifier = tfx.PlanModifier{ID: 78, Form: \"LocalModifier\"}\n\nfunc LocalPM(n int) tfsdk.AttributePlanModifier { return tfx.PlanModifier{ID: n, Form: fmt.Sprintf(\"LocalPM(%%d)\", n)} }\n", tfPkg)
	for _, s := range customSuffixes(b.Specs) {
		fmt.Fprintf(&hk, "\nfunc GenSchema%[1]s(ctx context.Context, a tfsdk.Attribute) tfsdk.Attribute { return tfx.HookGenSchema(%[1]q, ctx, a) }\n", s)
		fmt.Fprintf(&hk, "func CopyFrom%[1]s[T any](diags diag.Diagnostics, v attr.Value, o *T) { tfx.HookCopyFrom(%[1]q, diags, v, o) }\n", s)
		fmt.Fprintf(&hk, "func CopyTo%[1]s[T any](diags diag.Diagnostics, o T, t attr.Type, v attr.Value) attr.Value { return tfx.HookCopyTo(%[1]q, diags, o, t, v) }\n", s)
	}
	ioutil.WriteFile(filepath.Join(tfDir, "hooks.go"), hk.Bytes(), 0o644)

	// registration
	var rg bytes.Buffer
	qual := ""
	fmt.Fprintf(&rg, "package %s\n\nimport (\n\t\"context\"\n\n\t\"github.com/hashicorp/terraform-plugin-framework/diag\"\n\t\"github.com/hashicorp/terraform-plugin-framework/tfsdk\"\n\t\"github.com/hashicorp/terraform-plugin-framework/types\"\n\t\"verif/explorer\"\n", tfPkg)
	if c.Separate {
		fmt.Fprintf(&rg, "\tst %q\n", m.modName()+"/cases/"+c.ID+"/"+structDir(c))
		qual = "st."
	}
	fmt.Fprintf(&rg, ")\n\n")
	roots := append([]string{}, c.Cfg.Types...)
	sort.Strings(roots)
	for _, r := range roots {
		if !b.Emitted[r] || b.Specs[r] == nil {
			continue
		}
		sj, _ := json.Marshal(b.Specs[r])
		fmt.Fprintf(&rg, "var _ func(context.Context) (tfsdk.Schema, diag.Diagnostics) = GenSchema%s\n", r)
		fmt.Fprintf(&rg, "var _ func(context.Context, types.Object, *%s%s) diag.Diagnostics = Copy%sFromTerraform\n", qual, r, r)
		fmt.Fprintf(&rg, "var _ func(context.Context, *%s%s, *types.Object) diag.Diagnostics = Copy%sToTerraform\n", qual, r, r)
		fmt.Fprintf(&rg, "\nfunc init() {\n\texplorer.Register(&explorer.Target{\n\t\tCase: %q, Label: %q, Root: %q, Group: %q, Variant: %q,\n\t\tSpecJSON: %s,\n\t\tTags: %s,\n", c.ID, c.Label, r, c.Group, c.Variant, strconv.Quote(string(sj)), goMap(c.Tags))
		fmt.Fprintf(&rg, "\t\tNew: func() interface{} { return &%s%s{} },\n\t\tSchema: GenSchema%s,\n", qual, r, r)
		fmt.Fprintf(&rg, "\t\tFrom: func(ctx context.Context, o types.Object, v interface{}) diag.Diagnostics { return Copy%sFromTerraform(ctx, o, v.(*%s%s)) },\n", r, qual, r)
		fmt.Fprintf(&rg, "\t\tTo: func(ctx context.Context, v interface{}, o *types.Object) diag.Diagnostics { return Copy%sToTerraform(ctx, v.(*%s%s), o) },\n\t})\n}\n\n", r, qual, r)
	}
	ioutil.WriteFile(filepath.Join(tfDir, "reg.go"), rg.Bytes(), 0o644)
}

func goMap(m map[string]string) string {
	ks := make([]string, 0, len(m))
	for k := range m {
		ks = append(ks, k)
	}
	sort.Strings(ks)
	var sb strings.Builder
	sb.WriteString("map[string]string{")
	for _, k := range ks {
		fmt.Fprintf(&sb, "%q: %q, ", k, m[k])
	}
	sb.WriteString("}")
	return sb.String()
}

// WriteModule writes go.mod / go.sum / main.go for the cases that are to be compiled.
func (m *Module) WriteModule(include func(b *Built) bool) error {
	mod := m.ModDir()
	repoMod, err := ioutil.ReadFile(filepath.Join(gen.Repo, "go.mod"))
	if err != nil {
		return err
	}
	idx := bytes.Index(repoMod, []byte("require"))
	gomod := "module " + m.modName() + "\n\ngo 1.18\n\nrequire verif v0.0.0\n\nreplace verif => " + m.VerifDir + "\n\n" + string(repoMod[idx:])
	if err := ioutil.WriteFile(filepath.Join(mod, "go.mod"), []byte(gomod), 0o644); err != nil {
		return err
	}
	sum, err := ioutil.ReadFile(filepath.Join(gen.Repo, "go.sum"))
	if err != nil {
		return err
	}
	ioutil.WriteFile(filepath.Join(mod, "go.sum"), sum, 0o644)
	var mg bytes.Buffer
	mg.WriteString("package main\n\nimport (\n\t\"verif/explorer\"\n")
	for _, b := range m.Cases {
		if b == nil || b.Skip != "" || b.CompileErr != "" || (include != nil && !include(b)) {
			continue
		}
		fmt.Fprintf(&mg, "\t_ %q\n", b.ImportPath)
	}
	mg.WriteString(")\n\nfunc main() { explorer.Main() }\n")
	return ioutil.WriteFile(filepath.Join(mod, "main.go"), mg.Bytes(), 0o644)
}

var fileErr = regexp.MustCompile(`(?m)^cases/(c\d+)/\S+\.go:\d+:\d+: .*$`)

// dirErr: errors reported against the importing file that name the case directory ("found packages
// a (x.go) and b (y.go) in <mod>/cases/c0001/tfschema", "no Go files in ...")
var dirErr = regexp.MustCompile(`(?m)^.*/cases/(c\d+)(?:/\S*)?\s*$`)

var pkgHdr = regexp.MustCompile(`(?m)^# (\S+/cases/\S+)`)

// Build compiles the module; packages that fail to compile are recorded in
// CompileErr of their case and excluded, and the build is repeated.
func (m *Module) Build(include func(b *Built) bool) (string, error) {
	m.setupCache()
	bin := filepath.Join(m.Root, "harness")
	byPath := map[string]*Built{}
	for _, b := range m.Cases {
		if b != nil {
			byPath[m.modName()+"/cases/"+b.ID] = b
		}
	}
	for round := 0; round < 20; round++ {
		if err := m.WriteModule(include); err != nil {
			return "", err
		}
		cmd := exec.Command("go", "build", "-o", bin, ".")
		cmd.Dir = m.ModDir()
		cmd.Env = gen.GoEnv("GOCACHE=" + m.GoCache)
		out, err := cmd.CombinedOutput()
		if err == nil {
			return bin, nil
		}
		// attribute errors to packages
		text := string(out)
		locs := pkgHdr.FindAllStringSubmatchIndex(text, -1)
		progress := false
		// errors reported by file (import resolution, package clause ...) carry no "# package" header
		for _, fm := range fileErr.FindAllStringSubmatch(text, -1) {
			if b, ok := byPath[m.modName()+"/cases/"+fm[1]]; ok && b.CompileErr == "" {
				b.CompileErr = strings.TrimSpace(fm[0])
				progress = true
			}
		}
		for _, fm := range dirErr.FindAllStringSubmatch(text, -1) {
			if strings.HasPrefix(fm[0], "# ") {
				continue
			}
			if b, ok := byPath[m.modName()+"/cases/"+fm[1]]; ok && b.CompileErr == "" {
				b.CompileErr = strings.TrimSpace(fm[0])
				progress = true
			}
		}
		if len(locs) == 0 && !progress {
			return "", fmt.Errorf("scratch build failed:\n%s", text)
		}
		for i, l := range locs {
			path := text[l[2]:l[3]]
			end := len(text)
			if i+1 < len(locs) {
				end = locs[i+1][0]
			}
			body := text[l[1]:end]
			// <module>/cases/<id>[/...]
			key := path
			if i := strings.Index(path, "/cases/"); i >= 0 {
				rest := path[i+len("/cases/"):]
				if j := strings.Index(rest, "/"); j >= 0 {
					rest = rest[:j]
				}
				key = path[:i] + "/cases/" + rest
			}
			if b, ok := byPath[key]; ok && b.CompileErr == "" {
				b.CompileErr = strings.TrimSpace(body)
				progress = true
			}
		}
		if !progress {
			return "", fmt.Errorf("scratch build failed:\n%s", text)
		}
	}
	return "", fmt.Errorf("scratch build did not converge")
}

// RunHarness runs the harness binary in n worker processes (shards) with the
// given arguments; each worker writes JSON lines to its own file; the
// concatenated lines are returned.
func (m *Module) RunHarness(bin string, n int, args []string, timeoutSec int) ([][]byte, []string) {
	var wg sync.WaitGroup
	outs := make([][]byte, n)
	errs := make([]string, n)
	for i := 0; i < n; i++ {
		wg.Add(1)
		go func(i int) {
			defer wg.Done()
			a := append([]string{}, args...)
			a = append(a, "--shard", fmt.Sprintf("%d/%d", i, n))
			cmd := exec.Command("timeout", append([]string{strconv.Itoa(timeoutSec), bin}, a...)...)
			cmd.Dir = m.WorkDir()
			cmd.Env = append(os.Environ(), "GOMAXPROCS=2", "GOMEMLIMIT=6GiB")
			var so, se bytes.Buffer
			cmd.Stdout, cmd.Stderr = &so, &se
			err := cmd.Run()
			outs[i] = so.Bytes()
			if err != nil {
				errs[i] = fmt.Sprintf("worker %d: %v: %s", i, err, tail(se.String(), 2000))
			}
		}(i)
	}
	wg.Wait()
	var lines [][]byte
	for _, o := range outs {
		for _, l := range bytes.Split(o, []byte("\n")) {
			if len(bytes.TrimSpace(l)) > 0 {
				lines = append(lines, l)
			}
		}
	}
	var es []string
	for _, e := range errs {
		if e != "" {
			es = append(es, e)
		}
	}
	return lines, es
}

func tail(s string, n int) string {
	if len(s) > n {
		return s[len(s)-n:]
	}
	return s
}
