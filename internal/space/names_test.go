package space

import (
	"testing"

	"github.com/gogo/protobuf/protoc-gen-gogo/generator"
	"github.com/stoewer/go-strcase"

	"verif/internal/dsl"
)

// The oracle's naming functions are independent re-implementations; this test
// pins that every name used by the families lies in the fragment on which they
// agree with the libraries the plugin and protoc-gen-gogo use.
func TestNamesAgree(t *testing.T) {
	var cases []*Case
	cases = append(cases, F1("X", "my_field")...)
	cases = append(cases, F2(Representatives(), true)...)
	cases = append(cases, F3(Representatives())...)
	cases = append(cases, F4()...)
	cases = append(cases, F5()...)
	seen := map[string]bool{}
	var walk func(ms []*dsl.Message)
	walk = func(ms []*dsl.Message) {
		for _, m := range ms {
			for _, f := range m.Fields {
				seen[f.Name] = true
			}
			for _, o := range m.Oneofs {
				seen[o] = true
			}
			walk(m.Nested)
		}
	}
	for _, c := range cases {
		walk(c.File.Messages)
	}
	for n := range seen {
		if got, want := dsl.SnakeCase(n), strcase.SnakeCase(n); got != want {
			t.Errorf("SnakeCase(%q) = %q, go-strcase gives %q", n, got, want)
		}
		// the Go name is the one protoc-gen-gogo gives to the struct field
		if got, want := dsl.CamelCase(n), generator.CamelCase(n); got != want {
			t.Errorf("CamelCase(%q) = %q, protoc-gen-gogo gives %q", n, got, want)
		}
	}
	t.Logf("%d names checked", len(seen))
}
