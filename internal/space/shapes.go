// Package space enumerates the descriptor families, configurations and
// variants of DESIGN.md §3.4–3.5.
package space

import (
	"fmt"
	"sort"
	"strings"

	"verif/internal/dsl"
	"verif/spec"
)

// Case is one (file term, configuration term, layout) tuple.
type Case struct {
	ID     string // package / directory name, assigned by the driver
	Label  string // stable human readable identity, e.g. "F1/single/uint64/X"
	Family string
	// Shape class labels used for known-finding signatures.
	Tags map[string]string
	File *dsl.File
	Cfg  *dsl.Config
	// Separate: generate into a package different from the structs'.
	Separate bool
	// StructImport is the import path suffix of the struct package in the separate layout.
	StructImport string
	// TFPkg / TFDir: name and directory (below the case) of the target package in the separate
	// layout ("" = tfschema / the package name).
	TFPkg, TFDir string
	// ShortDefaultPkg: the short default_package_name used by the "short+override" variant ("" = structs)
	ShortDefaultPkg string
	// ProtoDir is the directory part of the proto file name in the request ("api/v1/")
	ProtoDir string
	// ProtoPkgSuffix is appended to the proto package (the case id), e.g. ".v1": protoc-gen-gogo
	// then derives a Go package name with an underscore from it.
	ProtoPkgSuffix string
	// Group ties variants that a differential oracle compares ("" = none); Variant names this member.
	Group   string
	Variant string
}

// VT is a value type of the shape alphabet.
type VT struct {
	Name  string
	Class string
	Apply func(f *dsl.Field)
	// admissible cardinalities
	Rep, Map, Oneof bool
}

func nn(f *dsl.Field) { f.Nullable = dsl.B(false) }

// ValueTypes is the shape alphabet of DESIGN.md §3.2 (value part).
func ValueTypes() []VT {
	var out []VT
	for _, s := range dsl.Scalars {
		s := s
		out = append(out, VT{Name: string(s), Class: "scalar", Apply: func(f *dsl.Field) { f.T = s }, Rep: true, Map: true, Oneof: true})
	}
	out = append(out,
		VT{"enum", "enum", func(f *dsl.Field) { f.T = dsl.Enum; f.Ref = "Mode" }, true, true, true},
		VT{"nestedenum", "enum", func(f *dsl.Field) { f.T = dsl.Enum; f.Ref = "Holder.Inner" }, true, true, true},
		VT{"msgNullable", "message", func(f *dsl.Field) { f.T = dsl.Msg; f.Ref = "Leaf" }, true, true, true},
		VT{"msgNonNull", "message", func(f *dsl.Field) { f.T = dsl.Msg; f.Ref = "Leaf"; nn(f) }, true, true, false},
		VT{"nestedMsg", "message", func(f *dsl.Field) { f.T = dsl.Msg; f.Ref = "Holder.Part" }, true, true, true},
		VT{"emptyNullable", "empty", func(f *dsl.Field) { f.T = dsl.Msg; f.Ref = "Empty" }, true, true, true},
		VT{"emptyNonNull", "empty", func(f *dsl.Field) { f.T = dsl.Msg; f.Ref = "Empty"; nn(f) }, true, true, false},
		VT{"stdtimeNullable", "time", func(f *dsl.Field) { f.T = dsl.Msg; f.Ref = dsl.Timestamp; f.StdTime = true }, true, true, true},
		VT{"stdtimeNonNull", "time", func(f *dsl.Field) { f.T = dsl.Msg; f.Ref = dsl.Timestamp; f.StdTime = true; nn(f) }, true, true, false},
		VT{"stddurNullable", "duration", func(f *dsl.Field) { f.T = dsl.Msg; f.Ref = dsl.Duration; f.StdDur = true }, true, true, true},
		VT{"stddurNonNull", "duration", func(f *dsl.Field) { f.T = dsl.Msg; f.Ref = dsl.Duration; f.StdDur = true; nn(f) }, true, true, false},
		VT{"int64stddur", "duration", func(f *dsl.Field) { f.T = dsl.Int64; f.StdDur = true }, true, false, true},
		VT{"castDuration", "cast", func(f *dsl.Field) { f.T = dsl.Int64; f.CastType = "Duration" }, true, false, true},
		VT{"castDurationSint", "cast", func(f *dsl.Field) { f.T = dsl.Sint64; f.CastType = "Duration" }, true, false, true},
		VT{"castDurationSfixed", "cast", func(f *dsl.Field) { f.T = dsl.Sfixed64; f.CastType = "Duration" }, true, false, false},
		VT{"castHumanDuration", "cast", func(f *dsl.Field) { f.T = dsl.String; f.CastType = "HumanDuration" }, true, false, true},
		VT{"castString", "cast", func(f *dsl.Field) { f.T = dsl.String; f.CastType = "MyString" }, true, false, true},
		VT{"castInt", "cast", func(f *dsl.Field) { f.T = dsl.Int32; f.CastType = "MyInt" }, true, false, true},
		VT{"castForeignFloat", "cast", func(f *dsl.Field) { f.T = dsl.Double; f.CastType = dsl.TFX + ".Duration" }, true, false, true},
		VT{"castForeignInt", "cast", func(f *dsl.Field) { f.T = dsl.Int64; f.CastType = dsl.TFX + ".Seconds" }, true, false, true},
		VT{"embedAuthPtr", "embedded", func(f *dsl.Field) { f.T = dsl.Msg; f.Ref = "Auth"; f.Embed = true; f.Name = "Auth" }, false, false, false},
		VT{"embedLimitsPtr", "embedded", func(f *dsl.Field) { f.T = dsl.Msg; f.Ref = "Limits"; f.Embed = true; f.Name = "Limits" }, false, false, false},
		VT{"embedRichVal", "embedded", func(f *dsl.Field) { f.T = dsl.Msg; f.Ref = "Rich"; f.Embed = true; f.Name = "Rich"; nn(f) }, false, false, false},
		VT{"customBool", "custom", func(f *dsl.Field) { f.T = dsl.Bool; f.CustomType = "BoolCustom" }, true, false, false},
		VT{"customString", "custom", func(f *dsl.Field) { f.T = dsl.String; f.CustomType = "StrCustom" }, false, false, false},
		VT{"customBytes", "custom", func(f *dsl.Field) { f.T = dsl.Bytes; f.CustomType = "BytesCustom" }, false, false, false},
	)
	return out
}

// VTByName looks a value type up.
func VTByName(n string) VT {
	for _, v := range ValueTypes() {
		if v.Name == n {
			return v
		}
	}
	panic("no value type " + n)
}

// Library messages every file may reference; only the referenced closure is emitted.
func library() (map[string]*dsl.Message, map[string]*dsl.EnumDecl) {
	f := func(name string, num int32, t dsl.T) *dsl.Field { return &dsl.Field{Name: name, Num: num, T: t} }
	msgs := map[string]*dsl.Message{}
	add := func(m *dsl.Message) { msgs[m.Name] = m }
	add(&dsl.Message{Name: "Leaf", Fields: []*dsl.Field{f("S", 1, dsl.String), f("I", 2, dsl.Int32)}, Comment: " Leaf is a small message"})
	add(&dsl.Message{Name: "Empty"})
	add(&dsl.Message{Name: "Holder",
		Fields: []*dsl.Field{f("H", 1, dsl.String)},
		Nested: []*dsl.Message{{Name: "Part", Fields: []*dsl.Field{f("P", 1, dsl.String), f("Q", 2, dsl.Int64)}}},
		NEnums: []*dsl.EnumDecl{{Name: "Inner", Values: []string{"INNER_ZERO", "INNER_ONE", "INNER_TWO"}}},
	})
	add(&dsl.Message{Name: "Rich", Fields: []*dsl.Field{
		f("RS", 1, dsl.String),
		{Name: "RL", Num: 2, T: dsl.String, Card: dsl.Repeated},
		{Name: "RLeaf", Num: 3, T: dsl.Msg, Ref: "Leaf"},
		{Name: "RM", Num: 4, T: dsl.String, Card: dsl.Map},
	}})
	add(&dsl.Message{Name: "Plain", Fields: []*dsl.Field{
		f("PS", 1, dsl.String), f("PI", 2, dsl.Int64), f("PB", 3, dsl.Bool), f("PF", 4, dsl.Double),
		{Name: "PE", Num: 5, T: dsl.Enum, Ref: "Mode"},
		{Name: "PT", Num: 6, T: dsl.Msg, Ref: dsl.Timestamp, StdTime: true, Nullable: dsl.B(false)},
		{Name: "PC", Num: 7, T: dsl.String, CastType: "MyString"},
	}})
	add(&dsl.Message{Name: "Big", Oneofs: []string{"Alt"}, Comment: " Big uses every class once", Fields: []*dsl.Field{
		f("S", 1, dsl.String),
		{Name: "L", Num: 2, T: dsl.String, Card: dsl.Repeated},
		{Name: "M", Num: 3, T: dsl.String, Card: dsl.Map},
		{Name: "PN", Num: 4, T: dsl.Msg, Ref: "Leaf"},
		{Name: "PV", Num: 5, T: dsl.Msg, Ref: "Leaf", Nullable: dsl.B(false)},
		{Name: "RL", Num: 6, T: dsl.Msg, Ref: "Leaf", Card: dsl.Repeated, Nullable: dsl.B(false)},
		{Name: "RP", Num: 7, T: dsl.Msg, Ref: "Leaf", Card: dsl.Repeated},
		{Name: "ML", Num: 8, T: dsl.Msg, Ref: "Leaf", Card: dsl.Map},
		{Name: "T", Num: 9, T: dsl.Msg, Ref: dsl.Timestamp, StdTime: true},
		{Name: "E", Num: 10, T: dsl.Enum, Ref: "Mode"},
		{Name: "By", Num: 11, T: dsl.Bytes},
		{Name: "Em", Num: 12, T: dsl.Msg, Ref: "Empty", Nullable: dsl.B(false)},
		{Name: "AltS", Num: 20, T: dsl.String, Oneof: "Alt"},
		{Name: "AltL", Num: 21, T: dsl.Msg, Ref: "Leaf", Oneof: "Alt"},
	}})
	add(&dsl.Message{Name: "Auth", Oneofs: []string{"Method"}, Fields: []*dsl.Field{
		{Name: "User", Num: 1, T: dsl.String},
		{Name: "Token", Num: 2, T: dsl.String, Oneof: "Method"},
		{Name: "Cert", Num: 3, T: dsl.Msg, Ref: "Leaf", Oneof: "Method"},
		{Name: "Scopes", Num: 4, T: dsl.String, Card: dsl.Repeated},
	}})
	add(&dsl.Message{Name: "Limits", Oneofs: []string{"Window"}, Fields: []*dsl.Field{
		{Name: "Quotas", Num: 1, T: dsl.Int64, Card: dsl.Map},
		{Name: "Burst", Num: 2, T: dsl.Int32, Oneof: "Window"},
		{Name: "Period", Num: 3, T: dsl.Msg, Ref: dsl.Duration, StdDur: true, Oneof: "Window"},
		{Name: "Flags", Num: 4, T: dsl.Bool, CustomType: "BoolCustom", Card: dsl.Repeated},
		{Name: "Note", Num: 5, T: dsl.String},
	}})
	enums := map[string]*dsl.EnumDecl{"Mode": {Name: "Mode", Values: []string{"MODE_A", "MODE_B", "MODE_C"}}}
	return msgs, enums
}

// Close adds to the file the library messages/enums that its messages reference (transitively).
func Close(file *dsl.File) *dsl.File {
	lib, enums := library()
	have := map[string]bool{}
	for _, m := range file.Messages {
		have[m.Name] = true
	}
	haveE := map[string]bool{}
	for _, e := range file.Enums {
		haveE[e.Name] = true
	}
	var need []string
	var scan func(m *dsl.Message)
	scan = func(m *dsl.Message) {
		for _, fl := range m.Fields {
			if fl.Ref == "" || fl.Ref == dsl.Timestamp || fl.Ref == dsl.Duration {
				continue
			}
			top := fl.Ref
			for i := 0; i < len(top); i++ {
				if top[i] == '.' {
					top = top[:i]
					break
				}
			}
			if fl.T == dsl.Enum && top == fl.Ref {
				if !haveE[top] {
					if e, ok := enums[top]; ok {
						file.Enums = append(file.Enums, e)
						haveE[top] = true
					}
				}
				continue
			}
			if !have[top] {
				if _, ok := lib[top]; ok {
					have[top] = true
					need = append(need, top)
				}
			}
		}
		for _, n := range m.Nested {
			scan(n)
		}
	}
	for _, m := range file.Messages {
		scan(m)
	}
	for len(need) > 0 {
		n := need[0]
		need = need[1:]
		m := lib[n]
		file.Messages = append(file.Messages, m)
		scan(m)
	}
	return file
}

// BaseConfig is the configuration shared by the shape families.
func BaseConfig(types ...string) *dsl.Config {
	c := (&dsl.Config{Types: types}).StdTypes()
	c.Suffixes = map[string]string{"BoolCustom": "BoolSpecial"}
	return c
}

func newFile(msgs ...*dsl.Message) *dsl.File {
	return Close(&dsl.File{GettersOff: true, Messages: msgs})
}

// single builds a root message with one field of value type vt in cardinality card.
func shapeField(vt VT, card string, name string, num int32) (*dsl.Field, []*dsl.Field, []string) {
	f := &dsl.Field{Name: name, Num: num}
	vt.Apply(f)
	switch card {
	case "single":
	case "repeated":
		f.Card = dsl.Repeated
	case "map":
		f.Card = dsl.Map
	case "oneof":
		f.Oneof = "Choice"
		other := &dsl.Field{Name: "Other", Num: num + 90, T: dsl.String, Oneof: "Choice"}
		if name[0] >= 'a' && name[0] <= 'z' {
			f.Oneof = "my_choice"
			other.Oneof = "my_choice"
			other.Name = "other_branch"
		}
		return f, []*dsl.Field{other}, []string{f.Oneof}
	}
	return f, nil, nil
}

// Cards lists the cardinalities admissible for vt.
func Cards(vt VT) []string {
	c := []string{"single"}
	if vt.Rep {
		c = append(c, "repeated")
	}
	if vt.Map {
		c = append(c, "map")
	}
	if vt.Oneof {
		c = append(c, "oneof")
	}
	return c
}

// F1 is the family of single shapes. namings ⊆ {"X","my_field"}.
func F1(namings ...string) []*Case {
	var out []*Case
	for _, vt := range ValueTypes() {
		if vt.Class == "embedded" {
			continue // embedded shapes: embedCases below and the pair family
		}
		for _, card := range Cards(vt) {
			for _, nm := range namings {
				f, extra, oneofs := shapeField(vt, card, nm, 1)
				root := &dsl.Message{Name: "Root", Oneofs: oneofs, Fields: append([]*dsl.Field{f}, extra...)}
				out = append(out, &Case{
					Label:  fmt.Sprintf("F1/%s/%s/%s", card, vt.Name, nm),
					Family: "F1",
					Tags:   map[string]string{"card": card, "vt": vt.Name, "class": vt.Class, "pos": "P0"},
					File:   newFile(root),
					Cfg:    BaseConfig("Root"),
				})
			}
		}
	}
	out = append(out, embedCases()...)
	out = append(out, jsonTagCases()...)
	return out
}

func embedCases() []*Case {
	var out []*Case
	for _, target := range []string{"Leaf", "Plain", "Rich"} {
		for _, nullable := range []bool{false, true} {
			for _, tag := range []string{"false", "true", "named"} {
				f := &dsl.Field{Name: target, Num: 1, T: dsl.Msg, Ref: target, Embed: true}
				if !nullable {
					nn(f)
				}
				switch tag {
				case "true":
					f.JSONTag = dsl.S("")
				case "named":
					// a json tag on the embedding field names nothing in the schema: the children are still flattened
					f.JSONTag = dsl.S("meta_" + strings.ToLower(target) + ",omitempty")
				}
				root := &dsl.Message{Name: "Root", Fields: []*dsl.Field{f, {Name: "Tail", Num: 2, T: dsl.String}}}
				n := "nonnull"
				if nullable {
					n = "nullable"
				}
				out = append(out, &Case{
					Label:  fmt.Sprintf("F1/embed/%s/%s/tag=%v", target, n, tag),
					Family: "F1",
					Tags:   map[string]string{"card": "embed", "vt": "embed" + target, "class": "embedded", "pos": "P0", "nullable": n},
					File:   newFile(root),
					Cfg:    BaseConfig("Root"),
				})
			}
		}
	}
	return out
}

func jsonTagCases() []*Case {
	var out []*Case
	{
		// distinct last elements: a generator that takes anything but the first element still compiles
		root := &dsl.Message{Name: "Root", Fields: []*dsl.Field{
			{Name: "X", Num: 1, T: dsl.String, JSONTag: dsl.S("alpha,omitempty")},
			{Name: "my_other", Num: 2, T: dsl.Int32, JSONTag: dsl.S("beta,string")},
			{Name: "Third", Num: 3, T: dsl.Bool, JSONTag: dsl.S("gamma,omitempty,inline")},
			// json names are taken verbatim: lowerCamel, UpperCamel and an all-caps name next to their snake_case twins
			{Name: "ClusterName", Num: 4, T: dsl.String, JSONTag: dsl.S("clusterName,omitempty")},
			{Name: "LegacyClusterName", Num: 5, T: dsl.String, JSONTag: dsl.S("cluster_name,omitempty")},
			{Name: "Ident", Num: 6, T: dsl.Int64, JSONTag: dsl.S("ID")},
			{Name: "LowerIdent", Num: 7, T: dsl.Int64, JSONTag: dsl.S("id")},
		}}
		out = append(out, &Case{Label: "F1/jsontag/multi", Family: "F1", Tags: map[string]string{"card": "single", "vt": "jsontag", "class": "scalar", "pos": "P0"}, File: newFile(root), Cfg: BaseConfig("Root")})
	}
	{
		// name forms with digits and acronyms: UpperCamel and lower_snake (snake_case is unambiguous for
		// all of them: no upper-case letter directly follows a digit)
		root := &dsl.Message{Name: "Root", Oneofs: []string{"pick_2", "Mode3"}}
		for i, n := range []string{"Field2", "HTTPPort", "UserID", "MaxAge", "TTL", "ABTest", "MFADevice", "Port80", "port_2", "address_line_2", "e2e_id", "ipv6_addr", "http2_port", "a1b2", "x", "max_sessionTTL", "aws_roleARN", "foo__bar", "Mixed_Case", "apiURLPrefix", "lowerCamel"} {
			root.Fields = append(root.Fields, &dsl.Field{Name: n, Num: int32(i + 1), T: []dsl.T{dsl.String, dsl.Int64, dsl.Bool}[i%3]})
		}
		root.Fields = append(root.Fields,
			&dsl.Field{Name: "opt_1", Num: 30, T: dsl.String, Oneof: "pick_2"}, &dsl.Field{Name: "opt2_b", Num: 31, T: dsl.Msg, Ref: "Leaf", Oneof: "pick_2"},
			&dsl.Field{Name: "M3A", Num: 32, T: dsl.Int32, Oneof: "Mode3"}, &dsl.Field{Name: "m3_b2", Num: 33, T: dsl.Bool, Oneof: "Mode3"},
			&dsl.Field{Name: "items_2", Num: 34, T: dsl.Msg, Ref: "Leaf", Card: dsl.Repeated}, &dsl.Field{Name: "by_key_2", Num: 35, T: dsl.Int64, Card: dsl.Map})
		out = append(out, &Case{Label: "F1/names/digits", Family: "F1", Tags: map[string]string{"card": "single", "vt": "names", "class": "scalar", "pos": "P0"}, File: newFile(root), Cfg: BaseConfig("Root")})
	}
	for i, tag := range []string{"renamed", "renamed,omitempty", "-", ""} {
		root := &dsl.Message{Name: "Root", Fields: []*dsl.Field{
			{Name: "X", Num: 1, T: dsl.String, JSONTag: dsl.S(tag)},
			{Name: "my_other", Num: 2, T: dsl.Int32, JSONTag: dsl.S(tag)},
		}}
		if tag == "renamed" || tag == "renamed,omitempty" {
			root.Fields[1].JSONTag = dsl.S("second" + tag[len("renamed"):])
		}
		out = append(out, &Case{
			Label:  fmt.Sprintf("F1/jsontag/%d", i),
			Family: "F1",
			Tags:   map[string]string{"card": "single", "vt": "jsontag", "class": "scalar", "pos": "P0"},
			File:   newFile(root),
			Cfg:    BaseConfig("Root"),
		})
	}
	return out
}

// Representatives are the shape-class representatives used by the nested and pair families.
func Representatives() [][2]string {
	return [][2]string{
		{"string", "single"}, {"int32", "single"}, {"uint64", "single"}, {"float", "single"}, {"bool", "single"}, {"bytes", "single"},
		{"enum", "single"}, {"string", "repeated"}, {"bytes", "repeated"}, {"string", "map"}, {"int64", "map"},
		{"msgNullable", "single"}, {"msgNonNull", "single"}, {"msgNullable", "repeated"}, {"msgNonNull", "repeated"},
		{"msgNullable", "map"}, {"msgNonNull", "map"}, {"emptyNullable", "single"}, {"emptyNonNull", "single"},
		{"stdtimeNullable", "single"}, {"stdtimeNonNull", "single"}, {"stddurNullable", "single"}, {"castDuration", "single"},
		{"string", "oneof"}, {"msgNullable", "oneof"}, {"emptyNullable", "oneof"}, {"customBool", "single"},
	}
}

// PairRepresentatives are the representatives of the pair family F3: the shape classes plus embedded messages.
func PairRepresentatives() [][2]string {
	return append(Representatives(), [2]string{"embedAuthPtr", "single"}, [2]string{"embedLimitsPtr", "single"}, [2]string{"embedRichVal", "single"})
}

// Positions P1..P6 (DESIGN.md §3.3).
var Positions = []string{"P1nullable", "P2nonnull", "P3listptr", "P3listval", "P4mapptr", "P4mapval", "P5oneof", "P6embedval", "P6embedptr"}

// wrap places message inner (by name) into a new message outer at position pos.
func wrap(outer string, inner string, pos string) *dsl.Message {
	m := &dsl.Message{Name: outer}
	f := &dsl.Field{Name: "Sub", Num: 1, T: dsl.Msg, Ref: inner}
	switch pos {
	case "P1nullable":
	case "P2nonnull":
		nn(f)
	case "P3listptr":
		f.Card = dsl.Repeated
	case "P3listval":
		f.Card = dsl.Repeated
		nn(f)
	case "P4mapptr":
		f.Card = dsl.Map
	case "P4mapval":
		f.Card = dsl.Map
		nn(f)
	case "P5oneof":
		f.Oneof = "Pick"
		m.Oneofs = []string{"Pick"}
		m.Fields = append(m.Fields, &dsl.Field{Name: "Alt", Num: 9, T: dsl.String, Oneof: "Pick"})
	case "P6embedval":
		f.Name = inner
		f.Embed = true
		nn(f)
	case "P6embedptr":
		f.Name = inner
		f.Embed = true
	default:
		panic(pos)
	}
	m.Fields = append([]*dsl.Field{f}, m.Fields...)
	// (a distinct name per level: a message that embeds another one must not repeat its field names)
	side := "Side"
	if outer != "Root" {
		side = outer + "Side"
	}
	m.Fields = append(m.Fields, &dsl.Field{Name: side, Num: 10, T: dsl.String})
	return m
}

// F2 is the nested family: representatives × positions at depth 1 (and depth 2 when deep).
func F2(reps [][2]string, deep bool) []*Case {
	var out []*Case
	for _, r := range reps {
		vt := VTByName(r[0])
		for _, pos := range Positions {
			f, extra, oneofs := shapeField(vt, r[1], "X", 1)
			inner := &dsl.Message{Name: "Inner", Oneofs: oneofs, Fields: append([]*dsl.Field{f}, extra...)}
			root := wrap("Root", "Inner", pos)
			out = append(out, &Case{
				Label:  fmt.Sprintf("F2/%s/%s/%s", pos, r[1], vt.Name),
				Family: "F2",
				Tags:   map[string]string{"card": r[1], "vt": vt.Name, "class": vt.Class, "pos": pos},
				File:   newFile(root, inner),
				Cfg:    BaseConfig("Root"),
			})
			if !deep {
				continue
			}
			for _, pos2 := range Positions {
				mid := wrap("Mid", "Inner", pos)
				root2 := wrap("Root", "Mid", pos2)
				out = append(out, &Case{
					Label:  fmt.Sprintf("F2/%s>%s/%s/%s", pos2, pos, r[1], vt.Name),
					Family: "F2d",
					Tags:   map[string]string{"card": r[1], "vt": vt.Name, "class": vt.Class, "pos": pos2 + ">" + pos},
					File:   newFile(root2, mid, inner),
					Cfg:    BaseConfig("Root"),
				})
			}
		}
	}
	return out
}

// F2Sample covers every ordered pair of positions at depth 2 once, rotating through the representatives.
func F2Sample(reps [][2]string) []*Case {
	var out []*Case
	n := 0
	for _, pos2 := range Positions {
		for _, pos := range Positions {
			r := reps[n%len(reps)]
			n++
			vt := VTByName(r[0])
			f, extra, oneofs := shapeField(vt, r[1], "X", 1)
			inner := &dsl.Message{Name: "Inner", Oneofs: oneofs, Fields: append([]*dsl.Field{f}, extra...)}
			mid := wrap("Mid", "Inner", pos)
			root2 := wrap("Root", "Mid", pos2)
			out = append(out, &Case{
				Label:  fmt.Sprintf("F2/%s>%s/%s/%s", pos2, pos, r[1], vt.Name),
				Family: "F2d",
				Tags:   map[string]string{"card": r[1], "vt": vt.Name, "class": vt.Class, "pos": pos2 + ">" + pos},
				File:   newFile(root2, mid, inner),
				Cfg:    BaseConfig("Root"),
			})
		}
	}
	return out
}

// F3 is the pair family: every unordered pair of representatives in one message.
func F3(reps [][2]string) []*Case {
	var out []*Case
	for i := 0; i < len(reps); i++ {
		for j := i; j < len(reps); j++ {
			a, b := VTByName(reps[i][0]), VTByName(reps[j][0])
			if a.Class == "embedded" && a.Name == b.Name {
				continue // the same message cannot be embedded twice
			}
			fa, ea, oa := shapeField(a, reps[i][1], "A", 1)
			fb, eb, ob := shapeField(b, reps[j][1], "Ab", 2)
			root := &dsl.Message{Name: "Root"}
			if len(oa) > 0 {
				root.Oneofs = append(root.Oneofs, oa...)
			}
			if len(ob) > 0 {
				// second oneof group gets its own name
				fb.Oneof = "Second"
				for _, e := range eb {
					e.Oneof = "Second"
					e.Name = "OtherTwo"
					e.Num = 95
				}
				root.Oneofs = append(root.Oneofs, "Second")
			}
			root.Fields = append(root.Fields, fa)
			root.Fields = append(root.Fields, ea...)
			root.Fields = append(root.Fields, fb)
			root.Fields = append(root.Fields, eb...)
			out = append(out, &Case{
				Label:  fmt.Sprintf("F3/%s.%s+%s.%s", reps[i][1], a.Name, reps[j][1], b.Name),
				Family: "F3",
				Tags:   map[string]string{"card": reps[i][1] + "+" + reps[j][1], "vt": a.Name + "+" + b.Name, "class": a.Class + "+" + b.Class, "pos": "P0"},
				File:   newFile(root),
				Cfg:    BaseConfig("Root"),
			})
		}
	}
	return out
}

// AllExcluded is the family of messages all of whose fields are excluded by the configuration:
// such a message at every position, as the root itself, and as the only (embedded) content of
// another message.
func AllExcluded() []*Case {
	var out []*Case
	inner := func() *dsl.Message {
		return &dsl.Message{Name: "Inner", Oneofs: []string{"Pick2"}, Fields: []*dsl.Field{
			{Name: "X", Num: 1, T: dsl.String}, {Name: "Y", Num: 2, T: dsl.Int32},
			{Name: "Za", Num: 3, T: dsl.String, Oneof: "Pick2"}, {Name: "Zb", Num: 4, T: dsl.Msg, Ref: "Leaf", Oneof: "Pick2"},
		}}
	}
	excl := []string{"Inner.X", "Inner.Y", "Inner.Za", "Inner.Zb"}
	tags := func(pos string) map[string]string {
		return map[string]string{"card": "all-excluded", "vt": "allExcluded", "class": "message", "pos": pos}
	}
	for _, pos := range Positions {
		c := BaseConfig("Root")
		c.Exclude = excl
		out = append(out, &Case{Label: "FX/all-excluded/" + pos, Family: "FX", Tags: tags(pos), File: newFile(wrap("Root", "Inner", pos), inner()), Cfg: c})
	}
	{
		// the selected root itself
		c := BaseConfig("Inner", "Root")
		c.Exclude = excl
		out = append(out, &Case{Label: "FX/all-excluded/root", Family: "FX", Tags: tags("P0"), File: newFile(wrap("Root", "Inner", "P1nullable"), inner()), Cfg: c})
	}
	{
		// a message without fields selected as a root
		nothing := &dsl.Message{Name: "Nothing", Comment: " Nothing has no fields"}
		t := tags("P0")
		t["card"], t["vt"] = "no-fields", "emptyRoot"
		out = append(out, &Case{Label: "FX/no-fields/root", Family: "FX", Tags: t, File: newFile(wrap("Root", "Nothing", "P1nullable"), nothing), Cfg: BaseConfig("Nothing", "Root")})
	}
	for _, pos := range []string{"P6embedval", "P6embedptr"} {
		// Mid holds nothing but the embedded message, so it ends up without attributes as well
		mid := wrap("Mid", "Inner", pos)
		mid.Fields = mid.Fields[:1]
		for _, pos2 := range []string{"P1nullable", "P3listval", "P4mapptr"} {
			c := BaseConfig("Root")
			c.Exclude = excl
			out = append(out, &Case{Label: "FX/all-excluded/" + pos2 + ">" + pos + "-only", Family: "FX", Tags: tags(pos2 + ">" + pos), File: newFile(wrap("Root", "Mid", pos2), mid, inner()), Cfg: c})
		}
	}
	return out
}

// Split derives the multi-file variant of a case: every message that is not a selected root and
// does not (transitively) refer to a message that stays, and every enum, moves to an imported
// sibling file of the same package. The expectation tree is unchanged; comment locations, message
// indices and the file a type is declared in are not.
func Split(c *Case) *Case {
	n := *c
	n.Cfg = c.Cfg.Clone()
	fc := *c.File
	n.File = &fc
	n.Tags = map[string]string{}
	for k, v := range c.Tags {
		n.Tags[k] = v
	}
	n.Tags["files"] = "split"
	n.Label = c.Label + "|split-files"
	stay := map[string]bool{}
	for _, t := range c.Cfg.Types {
		stay[t] = true
	}
	refs := func(m *dsl.Message) []string {
		var out []string
		var walk func(m *dsl.Message)
		walk = func(m *dsl.Message) {
			for _, fl := range m.Fields {
				if fl.T == dsl.Msg && fl.Ref != dsl.Timestamp && fl.Ref != dsl.Duration {
					top := fl.Ref
					if i := strings.Index(top, "."); i >= 0 {
						top = top[:i]
					}
					out = append(out, top)
				}
			}
			for _, x := range m.Nested {
				walk(x)
			}
		}
		walk(m)
		return out
	}
	for changed := true; changed; {
		changed = false
		for _, m := range c.File.Messages {
			if stay[m.Name] {
				continue
			}
			for _, r := range refs(m) {
				if stay[r] {
					stay[m.Name] = true
					changed = true
				}
			}
		}
	}
	sib := &dsl.File{Name: "common.proto"}
	fc.Messages = nil
	for _, m := range c.File.Messages {
		if stay[m.Name] {
			fc.Messages = append(fc.Messages, m)
		} else {
			sib.Messages = append(sib.Messages, m)
		}
	}
	sib.Enums = c.File.Enums
	fc.Enums = nil
	if len(sib.Messages) == 0 && len(sib.Enums) == 0 {
		return nil
	}
	fc.Siblings = []*dsl.File{sib}
	return &n
}

// SortCases orders cases by label (stable identity).
func SortCases(cs []*Case) {
	sort.SliceStable(cs, func(i, j int) bool { return cs[i].Label < cs[j].Label })
}

// F4 are the sink cases: a synthesized file using every class in every
// position (Big reached as field, list element, map value, oneof branch and
// embedded), and a message with three oneof groups of mixed branch kinds.
func F4() []*Case {
	var out []*Case
	sink := &dsl.Message{Name: "Root", Oneofs: []string{"Pick"}, Comment: " Root of the sink: the package clause and the import block must survive this comment", Fields: []*dsl.Field{
		{Name: "Str", Num: 1, T: dsl.String, Comment: " Str is a string"},
		{Name: "Direct", Num: 2, T: dsl.Msg, Ref: "Big", Nullable: dsl.B(false)},
		{Name: "Opt", Num: 3, T: dsl.Msg, Ref: "Big"},
		{Name: "Items", Num: 4, T: dsl.Msg, Ref: "Big", Card: dsl.Repeated},
		{Name: "ByKey", Num: 5, T: dsl.Msg, Ref: "Big", Card: dsl.Map, Nullable: dsl.B(false)},
		{Name: "Plain", Num: 6, T: dsl.Msg, Ref: "Plain", Embed: true, Nullable: dsl.B(false)},
		{Name: "PickBig", Num: 7, T: dsl.Msg, Ref: "Big", Oneof: "Pick"},
		{Name: "PickNum", Num: 8, T: dsl.Uint32, Oneof: "Pick"},
		{Name: "Dur", Num: 9, T: dsl.Msg, Ref: dsl.Duration, StdDur: true},
		{Name: "Cast", Num: 10, T: dsl.Int64, CastType: "Duration"},
	}}
	out = append(out, &Case{Label: "F4/sink", Family: "F4", Tags: map[string]string{"card": "mixed", "vt": "sink", "class": "sink", "pos": "deep"}, File: newFile(sink), Cfg: BaseConfig("Root")})
	three := &dsl.Message{Name: "Root", Oneofs: []string{"First", "second_group", "Third"}, Fields: []*dsl.Field{
		{Name: "A1", Num: 1, T: dsl.String, Oneof: "First"},
		{Name: "A2", Num: 2, T: dsl.Msg, Ref: "Leaf", Oneof: "First"},
		{Name: "A3", Num: 3, T: dsl.Msg, Ref: "Empty", Oneof: "First"},
		{Name: "Between", Num: 4, T: dsl.String},
		{Name: "b_one", Num: 5, T: dsl.Int32, Oneof: "second_group"},
		{Name: "b_two", Num: 6, T: dsl.Enum, Ref: "Mode", Oneof: "second_group"},
		{Name: "C1", Num: 7, T: dsl.Bytes, Oneof: "Third"},
		{Name: "C2", Num: 8, T: dsl.Bool, Oneof: "Third"},
		{Name: "C3", Num: 9, T: dsl.Msg, Ref: dsl.Timestamp, StdTime: true, Oneof: "Third"},
	}}
	out = append(out, &Case{Label: "F4/oneofs", Family: "F4", Tags: map[string]string{"card": "oneof", "vt": "three-groups", "class": "oneof", "pos": "P0"}, File: newFile(three), Cfg: BaseConfig("Root")})
	// two oneof groups whose branch names interleave alphabetically (matters once fields are sorted)
	inter := &dsl.Message{Name: "Root", Oneofs: []string{"Kind", "Mode"}, Fields: []*dsl.Field{
		{Name: "Alpha", Num: 1, T: dsl.String, Oneof: "Kind"},
		{Name: "Gamma", Num: 2, T: dsl.Msg, Ref: "Leaf", Oneof: "Kind"},
		{Name: "Beta", Num: 3, T: dsl.Int32, Oneof: "Mode"},
		{Name: "Delta", Num: 4, T: dsl.Bool, Oneof: "Mode"},
		{Name: "Epsilon", Num: 5, T: dsl.Bytes, Oneof: "Kind"},
		{Name: "Zed", Num: 6, T: dsl.String},
	}}
	out = append(out, &Case{Label: "F4/interleaved-oneofs", Family: "F4", Tags: map[string]string{"card": "oneof", "vt": "interleaved-groups", "class": "oneof", "pos": "P0"}, File: newFile(inter), Cfg: BaseConfig("Root")})
	// two different nullable embedded messages side by side, each with collection, oneof and
	// custom-type children and no scalar between them; plus a by-value embed next to a nullable one
	auth := &dsl.Message{Name: "Auth", Oneofs: []string{"Method"}, Fields: []*dsl.Field{
		{Name: "User", Num: 1, T: dsl.String},
		{Name: "Token", Num: 2, T: dsl.String, Oneof: "Method"},
		{Name: "Cert", Num: 3, T: dsl.Msg, Ref: "Leaf", Oneof: "Method"},
		{Name: "Scopes", Num: 4, T: dsl.String, Card: dsl.Repeated},
	}}
	limits := &dsl.Message{Name: "Limits", Oneofs: []string{"Window"}, Fields: []*dsl.Field{
		{Name: "Quotas", Num: 1, T: dsl.Int64, Card: dsl.Map},
		{Name: "Burst", Num: 2, T: dsl.Int32, Oneof: "Window"},
		{Name: "Period", Num: 3, T: dsl.Msg, Ref: dsl.Duration, StdDur: true, Oneof: "Window"},
		{Name: "Flags", Num: 4, T: dsl.Bool, CustomType: "BoolCustom", Card: dsl.Repeated},
		{Name: "Note", Num: 5, T: dsl.String},
	}}
	twoPtr := &dsl.Message{Name: "Root", Fields: []*dsl.Field{
		{Name: "Auth", Num: 1, T: dsl.Msg, Ref: "Auth", Embed: true},
		{Name: "Limits", Num: 2, T: dsl.Msg, Ref: "Limits", Embed: true},
		{Name: "Tail", Num: 3, T: dsl.String},
	}}
	out = append(out, &Case{Label: "F4/two-nullable-embeds", Family: "F4", Tags: map[string]string{"card": "embed", "vt": "two-embeds", "class": "embedded", "pos": "P0"}, File: newFile(twoPtr, auth, limits), Cfg: BaseConfig("Root")})
	mixed := &dsl.Message{Name: "Root", Fields: []*dsl.Field{
		{Name: "Limits", Num: 1, T: dsl.Msg, Ref: "Limits", Embed: true, Nullable: dsl.B(false)},
		{Name: "Auth", Num: 2, T: dsl.Msg, Ref: "Auth", Embed: true},
		{Name: "Kids", Num: 3, T: dsl.Msg, Ref: "Holder", Card: dsl.Repeated, Nullable: dsl.B(false)},
	}}
	// element messages held by value (list and map) that embed a nullable message with collection,
	// oneof and custom children
	elemHost := &dsl.Message{Name: "Host", Fields: []*dsl.Field{
		{Name: "Limits", Num: 1, T: dsl.Msg, Ref: "Limits", Embed: true},
		{Name: "HostName", Num: 2, T: dsl.String},
	}}
	byValue := &dsl.Message{Name: "Root", Fields: []*dsl.Field{
		{Name: "Hosts", Num: 1, T: dsl.Msg, Ref: "Host", Card: dsl.Repeated, Nullable: dsl.B(false)},
		{Name: "ByName", Num: 2, T: dsl.Msg, Ref: "Host", Card: dsl.Map, Nullable: dsl.B(false)},
		{Name: "Inline", Num: 3, T: dsl.Msg, Ref: "Host", Nullable: dsl.B(false)},
		{Name: "Ptrs", Num: 4, T: dsl.Msg, Ref: "Host", Card: dsl.Repeated},
	}}
	limits3 := *limits
	out = append(out, &Case{Label: "F4/value-elements-with-nullable-embed", Family: "F4", Tags: map[string]string{"card": "embed", "vt": "embed-in-value-elements", "class": "embedded", "pos": "P3"}, File: newFile(byValue, elemHost, &limits3), Cfg: BaseConfig("Root")})
	auth2, limits2 := *auth, *limits
	out = append(out, &Case{Label: "F4/value-and-nullable-embed", Family: "F4", Tags: map[string]string{"card": "embed", "vt": "two-embeds-mixed", "class": "embedded", "pos": "P0"}, File: newFile(mixed, &auth2, &limits2), Cfg: BaseConfig("Root")})
	// oneof groups declared in an order that is not the alphabetical order of their names, at the
	// root and in a nested message (group lookup by index vs by sorted name)
	unordered := &dsl.Message{Name: "Root", Oneofs: []string{"Zone", "auth_kind", "Mid"}, Fields: []*dsl.Field{
		{Name: "ZText", Num: 1, T: dsl.String, Oneof: "Zone"},
		{Name: "ZLeaf", Num: 2, T: dsl.Msg, Ref: "Leaf", Oneof: "Zone"},
		{Name: "Plain", Num: 3, T: dsl.String},
		{Name: "a_num", Num: 4, T: dsl.Int64, Oneof: "auth_kind"},
		{Name: "a_flag", Num: 5, T: dsl.Bool, Oneof: "auth_kind"},
		{Name: "MBytes", Num: 6, T: dsl.Bytes, Oneof: "Mid"},
		{Name: "MMode", Num: 7, T: dsl.Enum, Ref: "Mode", Oneof: "Mid"},
		{Name: "Sub", Num: 8, T: dsl.Msg, Ref: "Pair"},
	}}
	pair := &dsl.Message{Name: "Pair", Oneofs: []string{"Right", "Left"}, Fields: []*dsl.Field{
		{Name: "R1", Num: 1, T: dsl.String, Oneof: "Right"},
		{Name: "R2", Num: 2, T: dsl.Int32, Oneof: "Right"},
		{Name: "L1", Num: 3, T: dsl.Double, Oneof: "Left"},
		{Name: "L2", Num: 4, T: dsl.Msg, Ref: "Leaf", Oneof: "Left"},
	}}
	out = append(out, &Case{Label: "F4/unordered-oneof-groups", Family: "F4", Tags: map[string]string{"card": "oneof", "vt": "unordered-groups", "class": "oneof", "pos": "P0"}, File: newFile(unordered, pair), Cfg: BaseConfig("Root")})
	// attributes literally named "value" / "key" (the names of the synthetic map-entry fields) next
	// to scalar maps of the same element type
	sample := &dsl.Message{Name: "Sample", Fields: []*dsl.Field{
		{Name: "value", Num: 1, T: dsl.Double},
		{Name: "quantiles", Num: 2, T: dsl.Double, Card: dsl.Map},
		{Name: "key", Num: 3, T: dsl.String},
		{Name: "labels", Num: 4, T: dsl.String, Card: dsl.Map},
	}}
	blob := &dsl.Message{Name: "Blob", Fields: []*dsl.Field{
		{Name: "Value", Num: 1, T: dsl.Bytes},
		{Name: "Parts", Num: 2, T: dsl.Bytes, Card: dsl.Map},
		{Name: "Key", Num: 3, T: dsl.Int64},
		{Name: "Counts", Num: 4, T: dsl.Int64, Card: dsl.Map},
		{Name: "List", Num: 5, T: dsl.Int64, Card: dsl.Repeated},
	}}
	holder2 := &dsl.Message{Name: "Boxed", Fields: []*dsl.Field{
		{Name: "value", Num: 1, T: dsl.Msg, Ref: "Leaf"},
		{Name: "items", Num: 2, T: dsl.Msg, Ref: "Plain", Card: dsl.Map},
		{Name: "key", Num: 3, T: dsl.Msg, Ref: "Plain"},
		{Name: "same", Num: 4, T: dsl.Msg, Ref: "Leaf", Card: dsl.Map, Nullable: dsl.B(false)},
		{Name: "elems", Num: 5, T: dsl.Msg, Ref: "Leaf", Card: dsl.Repeated},
	}}
	named := &dsl.Message{Name: "Root", Fields: []*dsl.Field{
		{Name: "value", Num: 1, T: dsl.String},
		{Name: "tags", Num: 2, T: dsl.String, Card: dsl.Map},
		{Name: "Sample", Num: 3, T: dsl.Msg, Ref: "Sample"},
		{Name: "Blobs", Num: 4, T: dsl.Msg, Ref: "Blob", Card: dsl.Repeated},
		{Name: "Level", Num: 5, T: dsl.Enum, Ref: "Mode", JSONTag: dsl.S("key")},
		{Name: "Levels", Num: 6, T: dsl.Enum, Ref: "Mode", Card: dsl.Map},
		{Name: "Flag", Num: 7, T: dsl.Bool, JSONTag: dsl.S("elem")},
		{Name: "Flags", Num: 8, T: dsl.Bool, Card: dsl.Map},
		{Name: "Boxed", Num: 9, T: dsl.Msg, Ref: "Boxed"},
	}}
	// a nullable embedded message that itself embeds a nullable message (children of every kind two
	// nullable embedded parents deep)
	deepInner := &dsl.Message{Name: "DeepInner", Oneofs: []string{"Way"}, Fields: []*dsl.Field{
		{Name: "DS", Num: 1, T: dsl.String},
		{Name: "DL", Num: 2, T: dsl.String, Card: dsl.Repeated},
		{Name: "DLeaf", Num: 3, T: dsl.Msg, Ref: "Leaf"},
		{Name: "WayA", Num: 4, T: dsl.Int32, Oneof: "Way"},
		{Name: "WayB", Num: 5, T: dsl.Msg, Ref: "Leaf", Oneof: "Way"},
	}}
	deepMid := &dsl.Message{Name: "DeepMid", Fields: []*dsl.Field{
		{Name: "DeepInner", Num: 1, T: dsl.Msg, Ref: "DeepInner", Embed: true},
		{Name: "MidName", Num: 2, T: dsl.String},
	}}
	deepRoot := &dsl.Message{Name: "Root", Fields: []*dsl.Field{
		{Name: "DeepMid", Num: 1, T: dsl.Msg, Ref: "DeepMid", Embed: true},
		{Name: "Tail", Num: 2, T: dsl.String},
	}}
	out = append(out, &Case{Label: "F4/nested-nullable-embeds", Family: "F4", Tags: map[string]string{"card": "embed", "vt": "nested-nullable-embeds", "class": "embedded", "pos": "P6>P6"}, File: newFile(deepRoot, deepMid, deepInner), Cfg: BaseConfig("Root")})
	for _, combo := range [][2]bool{{false, false}, {false, true}, {true, false}} {
		// outer embed nullable?, inner embed nullable?  (both nullable: F4/nested-nullable-embeds)
		in := *deepInner
		in.Name = "EInner"
		mid := &dsl.Message{Name: "EMid", Fields: []*dsl.Field{
			{Name: "EInner", Num: 1, T: dsl.Msg, Ref: "EInner", Embed: true, Nullable: dsl.B(combo[1])},
			{Name: "MidName", Num: 2, T: dsl.String},
		}}
		root := &dsl.Message{Name: "Root", Fields: []*dsl.Field{
			{Name: "EMid", Num: 1, T: dsl.Msg, Ref: "EMid", Embed: true, Nullable: dsl.B(combo[0])},
			{Name: "Tail", Num: 2, T: dsl.String},
		}}
		nm := map[bool]string{false: "val", true: "ptr"}
		out = append(out, &Case{Label: "F4/embed-in-embed/" + nm[combo[0]] + ">" + nm[combo[1]], Family: "F4", Tags: map[string]string{"card": "embed", "vt": "embed-in-embed-" + nm[combo[0]] + "-" + nm[combo[1]], "class": "embedded", "pos": "P6>P6"}, File: newFile(root, mid, &in), Cfg: BaseConfig("Root")})
	}
	// chains of three embedded messages, every combination of nullable / by-value levels (the
	// generated code must allocate and guard every nullable level, outermost first)
	for bits := 0; bits < 8; bits++ {
		o, m, i := bits&4 != 0, bits&2 != 0, bits&1 != 0
		in := *deepInner
		in.Name = "CInner"
		lower := &dsl.Message{Name: "CLower", Fields: []*dsl.Field{
			{Name: "LowerName", Num: 1, T: dsl.String},
			{Name: "CInner", Num: 2, T: dsl.Msg, Ref: "CInner", Embed: true, Nullable: dsl.B(i)},
		}}
		upper := &dsl.Message{Name: "CUpper", Fields: []*dsl.Field{
			{Name: "CLower", Num: 1, T: dsl.Msg, Ref: "CLower", Embed: true, Nullable: dsl.B(m)},
			{Name: "UpperNames", Num: 2, T: dsl.String, Card: dsl.Repeated},
		}}
		root := &dsl.Message{Name: "Root", Fields: []*dsl.Field{
			{Name: "Head", Num: 1, T: dsl.String},
			{Name: "CUpper", Num: 2, T: dsl.Msg, Ref: "CUpper", Embed: true, Nullable: dsl.B(o)},
		}}
		nm := map[bool]string{false: "val", true: "ptr"}
		lbl := nm[o] + ">" + nm[m] + ">" + nm[i]
		out = append(out, &Case{Label: "F4/embed-chain3/" + lbl, Family: "F4", Tags: map[string]string{"card": "embed", "vt": "embed-chain3-" + nm[o] + "-" + nm[m] + "-" + nm[i], "class": "embedded", "pos": "P6>P6>P6"}, File: newFile(root, upper, lower, &in), Cfg: BaseConfig("Root")})
	}
	out = append(out, &Case{Label: "F4/value-named-siblings", Family: "F4", Tags: map[string]string{"card": "map", "vt": "value-named-siblings", "class": "scalar", "pos": "P0"}, File: newFile(named, sample, blob, holder2), Cfg: BaseConfig("Root")})
	return out
}

// AllPaths lists the option paths of every attribute (at every depth) of the selected roots.
func AllPaths(f *dsl.File, c *dsl.Config) []string {
	seen := map[string]bool{}
	var out []string
	var walk func(m *spec.Msg)
	walk = func(m *spec.Msg) {
		for _, a := range m.Attrs {
			if !a.Placeholder && !seen[a.Path] {
				seen[a.Path] = true
				out = append(out, a.Path)
			}
			if a.Msg != nil {
				walk(a.Msg)
			}
		}
	}
	for _, r := range c.Types {
		if s, err := dsl.BuildSpec(f, c, r); err == nil {
			walk(s)
		}
	}
	sort.Strings(out)
	return out
}

// AllTypeKeys lists the Message.Field keys of every attribute of the selected roots.
func AllTypeKeys(f *dsl.File, c *dsl.Config) []string {
	seen := map[string]bool{}
	var out []string
	var walk func(m *spec.Msg)
	walk = func(m *spec.Msg) {
		for _, a := range m.Attrs {
			if !a.Placeholder && !seen[a.TypeKey] {
				seen[a.TypeKey] = true
				out = append(out, a.TypeKey)
			}
			if a.Msg != nil {
				walk(a.Msg)
			}
		}
	}
	for _, r := range c.Types {
		if s, err := dsl.BuildSpec(f, c, r); err == nil {
			walk(s)
		}
	}
	sort.Strings(out)
	return out
}

// Variant derives a configuration variant of a case: sort on/off, package
// layout, and a per-field option mix ("none", "flags", "names").
func Variant(c *Case, sortOn bool, separate bool, mix string) *Case {
	n := *c
	n.Cfg = c.Cfg.Clone()
	fc := *c.File // Finalize sets Pkg/Name per case; the message terms are shared read-only
	n.File = &fc
	n.Tags = map[string]string{}
	for k, v := range c.Tags {
		n.Tags[k] = v
	}
	n.Cfg.Sort = sortOn
	n.Separate = separate
	n.Label = fmt.Sprintf("%s|sort=%v|sep=%v|mix=%s", c.Label, sortOn, separate, mix)
	n.Tags["sort"] = fmt.Sprint(sortOn)
	n.Tags["layout"] = map[bool]string{false: "same", true: "separate"}[separate]
	n.Tags["mix"] = mix
	paths := AllPaths(c.File, c.Cfg)
	switch mix {
	case "none":
	case "flags":
		n.Cfg.Required = append(n.Cfg.Required, paths...)
		n.Cfg.Computed = append(n.Cfg.Computed, paths...)
		n.Cfg.Sensitive = append(n.Cfg.Sensitive, paths...)
		n.Cfg.Validators = map[string][]string{}
		n.Cfg.PlanModifiers = map[string][]string{}
		for i, p := range paths {
			n.Cfg.Validators[p] = []string{fmt.Sprintf("%s.V(%d)", dsl.TFX, i)}
			n.Cfg.PlanModifiers[p] = []string{fmt.Sprintf("%s.PM(%d)", dsl.TFX, i), fmt.Sprintf("%s.PM(%d)", dsl.TFX, i+100)}
		}
		n.Cfg.UseStateForUnknown = true
	case "names":
		n.Cfg.NameOverrides = map[string]string{}
		for i, p := range paths {
			n.Cfg.NameOverrides[p] = fmt.Sprintf("ovr_%d", i)
		}
	case "bothnames":
		// both key forms for every field, with different values: the full path is the more specific key
		n.Cfg.NameOverrides = map[string]string{}
		for i, k := range AllTypeKeys(c.File, c.Cfg) {
			n.Cfg.NameOverrides[k] = fmt.Sprintf("tk_%d", i)
		}
		for i, p := range paths {
			n.Cfg.NameOverrides[p] = fmt.Sprintf("ovr_%d", i)
		}
	case "typekey-options":
		// every field-addressed option in the short Message.Field form
		n.Cfg.NameOverrides = map[string]string{}
		n.Cfg.Validators = map[string][]string{}
		tks := AllTypeKeys(c.File, c.Cfg)
		for i, k := range tks {
			n.Cfg.NameOverrides[k] = fmt.Sprintf("tk_%d", i)
			switch i % 4 {
			case 0:
				n.Cfg.Computed = append(n.Cfg.Computed, k)
			case 1:
				n.Cfg.Sensitive = append(n.Cfg.Sensitive, k)
			case 2:
				n.Cfg.Required = append(n.Cfg.Required, k)
			case 3:
				n.Cfg.Validators[k] = []string{fmt.Sprintf("%s.V(%d)", dsl.TFX, i)}
			}
		}
	case "usu":
		// every path computed, no explicit plan modifiers, the default UseStateForUnknown switch on
		n.Cfg.Computed = append(n.Cfg.Computed, paths...)
		n.Cfg.UseStateForUnknown = true
	case "typenames":
		// overrides keyed by Message.Field
		n.Cfg.NameOverrides = map[string]string{}
		for i, k := range AllTypeKeys(c.File, c.Cfg) {
			n.Cfg.NameOverrides[k] = fmt.Sprintf("tk_%d", i)
		}
	default:
		panic(mix)
	}
	return &n
}

// F5File is the multi-root file: four roots sharing nested types, Shared occurring at many paths.
func F5File() *dsl.File {
	f := func(name string, num int32, t dsl.T) *dsl.Field { return &dsl.Field{Name: name, Num: num, T: t} }
	msg := func(name string, num int32, ref string) *dsl.Field {
		return &dsl.Field{Name: name, Num: num, T: dsl.Msg, Ref: ref}
	}
	alpha := &dsl.Message{Name: "Alpha", Comment: " Alpha is the first root", Fields: []*dsl.Field{
		{Name: "Name", Num: 1, T: dsl.String, Comment: " Name of alpha, as known to the package manager used on the node"},
		{Name: "Namespace", Num: 8, T: dsl.String, Comment: " Namespace of alpha (its name starts with the name of Name)"},
		msg("Meta", 2, "Shared"),
		{Name: "Items", Num: 3, T: dsl.Msg, Ref: "Shared", Card: dsl.Repeated, Nullable: dsl.B(false)},
	}}
	beta := &dsl.Message{Name: "Beta", Fields: []*dsl.Field{
		{Name: "Stamp", Num: 7, T: dsl.Msg, Ref: "Stamp", Embed: true, Nullable: dsl.B(false)},
		{Name: "Meta", Num: 1, T: dsl.Msg, Ref: "Shared", Nullable: dsl.B(false)},
		{Name: "ByKey", Num: 2, T: dsl.Msg, Ref: "Shared", Card: dsl.Map},
		f("Count", 3, dsl.Int64),
	}}
	gamma := &dsl.Message{Name: "Gamma", Oneofs: []string{"Kind"}, Fields: []*dsl.Field{
		{Name: "KS", Num: 1, T: dsl.Msg, Ref: "Shared", Oneof: "Kind"},
		{Name: "KT", Num: 2, T: dsl.String, Oneof: "Kind"},
		msg("Deep", 3, "Deep"),
	}}
	delta := &dsl.Message{Name: "Delta", Fields: []*dsl.Field{
		f("Only", 1, dsl.String),
		msg("Nested", 2, "Alpha"),
		// a message type declared inside Delta (Go name Delta_Limits, option key Limits.<field>), used twice
		msg("CPU", 3, "Delta.Limits"),
		{Name: "Memory", Num: 4, T: dsl.Msg, Ref: "Delta.Limits", Nullable: dsl.B(false)},
	}, Nested: []*dsl.Message{{Name: "Limits", Comment: " Limits is declared inside Delta", Fields: []*dsl.Field{
		{Name: "Hard", Num: 1, T: dsl.Int64, Comment: " Hard limit"}, {Name: "Soft", Num: 2, T: dsl.Int64}, {Name: "Unit", Num: 3, T: dsl.String}}}}}
	shared := &dsl.Message{Name: "Shared", Comment: " Shared is used everywhere", Fields: []*dsl.Field{
		{Name: "ID", Num: 1, T: dsl.String, Comment: " ID of the thing"},
		f("Label", 2, dsl.String),
		msg("Tiny", 3, "Tiny"),
		{Name: "IDs", Num: 4, T: dsl.String, Card: dsl.Repeated, Comment: " IDs (its name starts with the name of ID)"},
		{Name: "display_name", Num: 5, T: dsl.String, Comment: " display_name is a lower_snake name in a nested message"},
	}}
	tiny := &dsl.Message{Name: "Tiny", Fields: []*dsl.Field{f("On", 1, dsl.Bool), f("N", 2, dsl.Int32), f("low_n", 3, dsl.Int64)}}
	stamp := &dsl.Message{Name: "Stamp", Comment: " Stamp is embedded in a root and in a nested message", Fields: []*dsl.Field{
		{Name: "Rev", Num: 1, T: dsl.Int64, Comment: " Rev counts revisions"}, f("Who", 2, dsl.String)}}
	deep := &dsl.Message{Name: "Deep", Fields: []*dsl.Field{msg("Inner", 1, "Shared"), {Name: "Tags", Num: 2, T: dsl.String, Card: dsl.Repeated},
		{Name: "ByName", Num: 3, T: dsl.Msg, Ref: "Tiny", Card: dsl.Map}, {Name: "Parts", Num: 4, T: dsl.Msg, Ref: "Tiny", Card: dsl.Repeated, Nullable: dsl.B(false)},
		{Name: "Stamp", Num: 5, T: dsl.Msg, Ref: "Stamp", Embed: true}}}
	return &dsl.File{GettersOff: true, Messages: []*dsl.Message{alpha, beta, gamma, delta, shared, tiny, deep, stamp}}
}

// F5Roots are the selectable roots of F5File.
var F5Roots = []string{"Alpha", "Beta", "Gamma", "Delta"}

// F5 is the multi-root family with all roots selected.
func F5() []*Case {
	return []*Case{{
		Label: "F5/all", Family: "F5", Tags: map[string]string{"card": "mixed", "vt": "multiroot", "class": "multiroot", "pos": "deep"},
		File: F5File(), Cfg: BaseConfig(F5Roots...),
	}}
}
