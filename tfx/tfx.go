// Package tfx holds the harness-supplied Terraform types the generated code is
// configured to use (time_type, duration_type, validators, plan modifiers) and
// the call log of the custom-type hooks. Its identities are what the oracles
// compare against.
package tfx

import (
	"context"
	"fmt"
	"reflect"
	"time"

	"github.com/hashicorp/terraform-plugin-framework/attr"
	"github.com/hashicorp/terraform-plugin-framework/diag"
	"github.com/hashicorp/terraform-plugin-framework/tfsdk"
	"github.com/hashicorp/terraform-plugin-go/tftypes"
)

// TimeType is the attr.Type configured as time_type.
type TimeType struct {
	attr.Type
	Format string
}

// UseRFC3339Time is the configured type_constructor.
func UseRFC3339Time() TimeType { return TimeType{Format: time.RFC3339Nano} }

func (t TimeType) ApplyTerraform5AttributePathStep(step tftypes.AttributePathStep) (interface{}, error) {
	return nil, fmt.Errorf("cannot apply AttributePathStep %T to %s", step, t.String())
}
func (t TimeType) String() string { return "TimeType" }
func (t TimeType) Equal(o attr.Type) bool {
	other, ok := o.(TimeType)
	return ok && t.Format == other.Format
}
func (t TimeType) TerraformType(context.Context) tftypes.Type { return tftypes.String }
func (t TimeType) ValueFromTerraform(_ context.Context, in tftypes.Value) (attr.Value, error) {
	if !in.IsKnown() {
		return TimeValue{Unknown: true, Format: t.Format}, nil
	}
	if in.IsNull() {
		return TimeValue{Null: true, Format: t.Format}, nil
	}
	var raw string
	if err := in.As(&raw); err != nil {
		return nil, err
	}
	v, err := time.Parse(t.Format, raw)
	if err != nil {
		return nil, err
	}
	return TimeValue{Value: v, Format: t.Format}, nil
}

// TimeValue is the attr.Value configured as time_type.value_type.
type TimeValue struct {
	Unknown bool
	Null    bool
	Value   time.Time
	Format  string
}

func (t TimeValue) Type(context.Context) attr.Type { return TimeType{Format: t.Format} }
func (t TimeValue) ToTerraformValue(context.Context) (tftypes.Value, error) {
	if t.Null {
		return tftypes.NewValue(tftypes.String, nil), nil
	}
	if t.Unknown {
		return tftypes.NewValue(tftypes.String, tftypes.UnknownValue), nil
	}
	return tftypes.NewValue(tftypes.String, t.Value.Format(t.Format)), nil
}
func (t TimeValue) Equal(other attr.Value) bool {
	o, ok := other.(TimeValue)
	return ok && t.Unknown == o.Unknown && t.Null == o.Null && t.Value.Equal(o.Value)
}
func (t TimeValue) IsNull() bool    { return t.Null }
func (t TimeValue) IsUnknown() bool { return t.Unknown }
func (t TimeValue) String() string {
	if t.Unknown {
		return attr.UnknownValueString
	}
	if t.Null {
		return attr.NullValueString
	}
	return t.Value.String()
}

// DurationType is the attr.Type configured as duration_type.
type DurationType struct{ attr.Type }

func (t DurationType) ApplyTerraform5AttributePathStep(step tftypes.AttributePathStep) (interface{}, error) {
	return nil, fmt.Errorf("cannot apply AttributePathStep %T to %s", step, t.String())
}
func (t DurationType) String() string { return "DurationType" }
func (t DurationType) Equal(o attr.Type) bool {
	_, ok := o.(DurationType)
	return ok
}
func (t DurationType) TerraformType(context.Context) tftypes.Type { return tftypes.String }
func (t DurationType) ValueFromTerraform(_ context.Context, in tftypes.Value) (attr.Value, error) {
	if !in.IsKnown() {
		return DurationValue{Unknown: true}, nil
	}
	if in.IsNull() {
		return DurationValue{Null: true}, nil
	}
	var raw string
	if err := in.As(&raw); err != nil {
		return nil, err
	}
	v, err := time.ParseDuration(raw)
	if err != nil {
		return nil, err
	}
	return DurationValue{Value: v}, nil
}

// DurationValue is the attr.Value configured as duration_type.value_type.
type DurationValue struct {
	Unknown bool
	Null    bool
	Value   time.Duration
}

func (t DurationValue) Type(context.Context) attr.Type { return DurationType{} }
func (t DurationValue) ToTerraformValue(context.Context) (tftypes.Value, error) {
	if t.Null {
		return tftypes.NewValue(tftypes.String, nil), nil
	}
	if t.Unknown {
		return tftypes.NewValue(tftypes.String, tftypes.UnknownValue), nil
	}
	return tftypes.NewValue(tftypes.String, t.Value.String()), nil
}
func (t DurationValue) Equal(other attr.Value) bool {
	o, ok := other.(DurationValue)
	return ok && t.Unknown == o.Unknown && t.Null == o.Null && t.Value == o.Value
}
func (t DurationValue) IsNull() bool    { return t.Null }
func (t DurationValue) IsUnknown() bool { return t.Unknown }
func (t DurationValue) String() string {
	if t.Unknown {
		return attr.UnknownValueString
	}
	if t.Null {
		return attr.NullValueString
	}
	return t.Value.String()
}

// Validator is a validator with an identity.
type Validator struct {
	ID int
	// Form is the spelling the configuration uses for this validator when it is not verif/tfx.V(ID)
	Form string
}

func V(id int) tfsdk.AttributeValidator { return Validator{ID: id} }

// VS is a validator with a string argument (regular expressions, dots, brackets, quotes ...).
func VS(s string) tfsdk.AttributeValidator {
	return Validator{ID: -1, Form: fmt.Sprintf("verif/tfx.VS(%q)", s)}
}

func (v Validator) Description(context.Context) string         { return fmt.Sprintf("V(%d)", v.ID) }
func (v Validator) MarkdownDescription(context.Context) string { return fmt.Sprintf("V(%d)", v.ID) }
func (v Validator) Validate(context.Context, tfsdk.ValidateAttributeRequest, *tfsdk.ValidateAttributeResponse) {
}

// PlanModifier is a plan modifier with an identity.
type PlanModifier struct {
	ID   int
	Form string
}

func PM(id int) tfsdk.AttributePlanModifier { return PlanModifier{ID: id} }

// PMS is a plan modifier with a string argument.
func PMS(s string) tfsdk.AttributePlanModifier {
	return PlanModifier{ID: -1, Form: fmt.Sprintf("verif/tfx.PMS(%q)", s)}
}

func (v PlanModifier) Description(context.Context) string         { return fmt.Sprintf("PM(%d)", v.ID) }
func (v PlanModifier) MarkdownDescription(context.Context) string { return fmt.Sprintf("PM(%d)", v.ID) }
func (v PlanModifier) Modify(context.Context, tfsdk.ModifyAttributePlanRequest, *tfsdk.ModifyAttributePlanResponse) {
}

// ---------------------------------------------------------------------------
// custom-type hooks: call log and sentinels

// Call is one logged hook invocation.
type Call struct {
	Hook   string // "GenSchema" | "CopyFrom" | "CopyTo"
	Suffix string
	Args   []interface{}
}

// Log is the hook call log; the explorer resets and reads it.
var Log []Call

// SentinelType is what the GenSchema hook returns as the attribute type and
// the type of the value the CopyTo hook returns.
type SentinelType struct {
	attr.Type
	Suffix string
}

func (t SentinelType) ApplyTerraform5AttributePathStep(step tftypes.AttributePathStep) (interface{}, error) {
	return nil, fmt.Errorf("cannot apply AttributePathStep %T to %s", step, t.String())
}
func (t SentinelType) String() string { return "Sentinel(" + t.Suffix + ")" }
func (t SentinelType) Equal(o attr.Type) bool {
	other, ok := o.(SentinelType)
	return ok && other.Suffix == t.Suffix
}
func (t SentinelType) TerraformType(context.Context) tftypes.Type { return tftypes.String }
func (t SentinelType) ValueFromTerraform(_ context.Context, in tftypes.Value) (attr.Value, error) {
	if !in.IsKnown() {
		return SentinelValue{Suffix: t.Suffix, Unknown: true}, nil
	}
	if in.IsNull() {
		return SentinelValue{Suffix: t.Suffix, Null: true}, nil
	}
	var raw string
	if err := in.As(&raw); err != nil {
		return nil, err
	}
	return SentinelValue{Suffix: t.Suffix, Payload: raw}, nil
}

// SentinelValue is the value of a custom attribute; Payload encodes the Go
// field value the CopyTo hook was given.
type SentinelValue struct {
	Suffix  string
	Null    bool
	Unknown bool
	Payload string
	Serial  int
}

func (v SentinelValue) Type(context.Context) attr.Type { return SentinelType{Suffix: v.Suffix} }
func (v SentinelValue) ToTerraformValue(context.Context) (tftypes.Value, error) {
	if v.Null {
		return tftypes.NewValue(tftypes.String, nil), nil
	}
	if v.Unknown {
		return tftypes.NewValue(tftypes.String, tftypes.UnknownValue), nil
	}
	return tftypes.NewValue(tftypes.String, v.Payload), nil
}
func (v SentinelValue) Equal(o attr.Value) bool {
	other, ok := o.(SentinelValue)
	return ok && other == v
}
func (v SentinelValue) IsNull() bool    { return v.Null }
func (v SentinelValue) IsUnknown() bool { return v.Unknown }
func (v SentinelValue) String() string {
	return fmt.Sprintf("Sentinel(%s,%q,#%d)", v.Suffix, v.Payload, v.Serial)
}

// Serial numbers the CopyTo hook results so that each return value is distinguishable.
var Serial int

// HookGenSchema is called by the generated GenSchema<S> shims.
func HookGenSchema(suffix string, ctx context.Context, a tfsdk.Attribute) tfsdk.Attribute {
	Log = append(Log, Call{"GenSchema", suffix, []interface{}{ctx, a}})
	out := a
	out.Type = SentinelType{Suffix: suffix}
	out.Attributes = nil
	out.MarkdownDescription = "sentinel:" + suffix
	return out
}

// Fill is installed by the explorer: it writes the canonical non-zero (or,
// for null, zero) value through the field pointer a CopyFrom hook received.
var Fill func(fieldPtr interface{}, null bool)

// HookCopyFrom is called by the generated CopyFrom<S> shims.
func HookCopyFrom(suffix string, diags diag.Diagnostics, v attr.Value, fieldPtr interface{}) {
	Log = append(Log, Call{"CopyFrom", suffix, []interface{}{diags, v, fieldPtr}})
	if Fill == nil {
		return
	}
	null := v == nil || v.IsNull() || v.IsUnknown()
	Fill(fieldPtr, null)
}

// HookCopyTo is called by the generated CopyTo<S> shims.
func HookCopyTo(suffix string, diags diag.Diagnostics, fieldValue interface{}, t attr.Type, cur attr.Value) attr.Value {
	Log = append(Log, Call{"CopyTo", suffix, []interface{}{diags, fieldValue, t, cur}})
	Serial++
	return SentinelValue{Suffix: suffix, Payload: render(fieldValue), Serial: Serial}
}

// render prints a Go field value without addresses (pointers are followed).
func render(v interface{}) string {
	rv := reflect.ValueOf(v)
	for rv.IsValid() && rv.Kind() == reflect.Ptr {
		if rv.IsNil() {
			return "<nil>"
		}
		rv = rv.Elem()
	}
	if !rv.IsValid() {
		return "<nil>"
	}
	return fmt.Sprintf("%v", rv.Interface())
}

// Duration is a float64-based type of another package that happens to share the bare name of
// the configured custom duration type; Seconds is an int64-based foreign cast type.
type Duration float64

// Seconds is a foreign cast type over int64.
type Seconds int64
