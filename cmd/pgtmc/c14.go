package main

import (
	"fmt"
	"os"
	"path/filepath"
	"regexp"
	"strconv"
	"strings"

	d "github.com/gogo/protobuf/protoc-gen-gogo/descriptor"

	"verif/internal/dsl"
	"verif/internal/gen"
	"verif/internal/space"
)

type c14Req struct {
	name string
	fd   *d.FileDescriptorProto
	cfg  *dsl.Config
	// param: additional command-line parameters next to config=
	param string
}

func c14Requests() []c14Req {
	var out []c14Req
	// sink with every per-field option set
	sink := space.Variant(space.F4()[0], true, false, "flags")
	sink.File.Pkg, sink.File.Name = "sink", "sink.proto"
	// both key forms for the same nested field, with different values (the path entry is the more specific one)
	sink.Cfg.NameOverrides = map[string]string{"Root.Str": "renamed_str", "Big.S": "big_s", "Root.Direct.S": "direct_s", "Root.Opt.L": "opt_l", "Big.L": "big_l"}
	sink.Cfg.Validators["Big.E"] = []string{dsl.TFX + ".V(900)"}
	sink.Cfg.Validators["Root.Items.E"] = []string{dsl.TFX + ".V(901)"}
	sink.Cfg.PlanModifiers["Leaf.I"] = []string{dsl.TFX + ".PM(900)"}
	sink.Cfg.Injected = map[string][]dsl.Injected{"Root.Direct": {{Name: "direct_id", Type: "github.com/hashicorp/terraform-plugin-framework/types.StringType", Computed: true}}, "Root.Opt": {{Name: "opt_id", Type: "github.com/hashicorp/terraform-plugin-framework/types.StringType", Optional: true}}, "Root": {{Name: "id", Type: "github.com/hashicorp/terraform-plugin-framework/types.StringType", Computed: true}, {Name: "rev", Type: "github.com/hashicorp/terraform-plugin-framework/types.Int64Type", Optional: true}, {Name: "zz_first", Type: "github.com/hashicorp/terraform-plugin-framework/types.StringType", Optional: true}, {Name: "zz_second", Type: "github.com/hashicorp/terraform-plugin-framework/types.StringType", Optional: true}, {Name: "aa_before", Type: "github.com/hashicorp/terraform-plugin-framework/types.BoolType", Optional: true}, {Name: "aa_also", Type: "github.com/hashicorp/terraform-plugin-framework/types.BoolType", Optional: true}}}
	sink.Cfg.Exclude = []string{"Big.By"}
	// the default modifier switch together with lists that name the default modifier themselves,
	// repeat entries, and mix them with others (computed fields: the flags mix marks every path)
	usu := "github.com/hashicorp/terraform-plugin-framework/tfsdk.UseStateForUnknown()"
	sink.Cfg.UseStateForUnknown = true
	sink.Cfg.PlanModifiers["Root.Str"] = []string{dsl.TFX + ".PM(910)", usu, dsl.TFX + ".PM(911)"}
	sink.Cfg.PlanModifiers["Big.S"] = []string{usu, dsl.TFX + ".PM(912)", usu, dsl.TFX + ".PM(913)", dsl.TFX + ".PM(912)"}
	sink.Cfg.Validators["Big.L"] = []string{dsl.TFX + ".V(914)", dsl.TFX + ".V(915)", dsl.TFX + ".V(914)", dsl.TFX + ".V(916)"}
	out = append(out, c14Req{"sink+flags", sink.File.Descriptor(), sink.Cfg, ""})
	f5, c5 := c16Base()
	c5.NameOverrides = map[string]string{"Shared.ID": "ident", "Alpha.Meta": "metadata", "Alpha.Meta.ID": "alpha_meta_ident", "Beta.Meta.Label": "beta_label", "Shared.Label": "generic_label"}
	c5.Validators = map[string][]string{"Shared.ID": {dsl.TFX + ".V(1)"}, "Beta.Count": {dsl.TFX + ".V(2)", dsl.TFX + ".V(3)"}, "Beta.Meta.ID": {dsl.TFX + ".V(4)"}, "Tiny.N": {dsl.TFX + ".V(5)"}, "Alpha.Items.Tiny.N": {dsl.TFX + ".V(6)"}}
	c5.PlanModifiers = map[string][]string{"Alpha.Meta": {dsl.TFX + ".PM(1)"}, "Tiny.On": {dsl.TFX + ".PM(2)"}, "Gamma.Deep.Inner.Tiny.On": {dsl.TFX + ".PM(3)"}}
	c5.Injected = map[string][]dsl.Injected{"Alpha": {{Name: "id", Type: "github.com/hashicorp/terraform-plugin-framework/types.StringType", Computed: true}}, "Alpha.Meta": {{Name: "meta_id", Type: "github.com/hashicorp/terraform-plugin-framework/types.StringType", Computed: true}}, "Beta.Meta": {{Name: "beta_meta_id", Type: "github.com/hashicorp/terraform-plugin-framework/types.StringType", Optional: true}}}
	c5.UseStateForUnknown = true
	// import_path_overrides whose keys are path prefixes of one another, each mapped elsewhere, and names
	// qualified with the nested ones
	c5.ImportPathOverrides = map[string]string{"vx": "example.com/elsewhere/vx", "vx/tfx": "verif/tfx", "vx/tfx/deep": "example.com/deep/one", "vx/other": "example.com/other"}
	c5.Validators["Delta.Only"] = []string{"vx/tfx.V(40)", "vx/tfx/deep.Check()", "vx.Top()"}
	c5.PlanModifiers["Gamma.KS"] = []string{"vx/tfx.PM(41)", "vx/other.Mod()"}
	// (deep path entries whose ancestors are not computed themselves)
	c5.Computed = append(c5.Computed, "Shared.Label", "Beta.Count", "Gamma.Deep.Inner.Tiny.On", "Delta.Nested.Meta.Tiny.low_n", "Alpha.Items.Tiny.N")
	c5.PlanModifiers["Shared.Label"] = []string{dsl.TFX + ".PM(7)", usu, dsl.TFX + ".PM(8)"}
	c5.PlanModifiers["Beta.Count"] = []string{usu, usu, dsl.TFX + ".PM(9)", dsl.TFX + ".PM(10)", dsl.TFX + ".PM(9)"}
	c5.Validators["Gamma.KT"] = []string{dsl.TFX + ".V(7)", dsl.TFX + ".V(8)", dsl.TFX + ".V(7)", dsl.TFX + ".V(9)"}
	out = append(out, c14Req{"f5+options", f5.Descriptor(), c5, ""})
	// the same request with command-line parameters on top of the file: every list option under its
	// command-line name and, with a different value, under its YAML/README name (which the command line
	// does not know and ignores); which spelling counts must not depend on the iteration order of the
	// parameter map
	out = append(out, c14Req{"f5+options+cli-both-spellings", f5.Descriptor(), c5,
		// (eight parameters with config=: one bucket, so the start position alone decides the order)
		"sensitive=Alpha.Meta.ID+Tiny.On,sensitive_fields=Beta.Meta.Label,computed_fields=Delta.Only,computed=Beta.Count," +
			"custom_duration=Duration,duration_custom_type=OtherDuration,sort=true"})
	// shapes with several embedded parents, several oneof groups and custom types (sorted)
	for _, c := range space.F4()[2:] {
		v := space.Variant(c, true, false, "flags")
		v.File.Pkg, v.File.Name = "shapes", "shapes.proto"
		out = append(out, c14Req{"shape:" + c.Tags["vt"], v.File.Descriptor(), v.Cfg, ""})
	}
	min := space.F1("X")[0]
	min.File.Pkg, min.File.Name = "minimal", "minimal.proto"
	out = append(out, c14Req{"minimal", min.File.Descriptor(), min.Cfg, ""})
	return out
}

var vmsRe = regexp.MustCompile(`(?m)^VMS (\d+) count=(\d+) B=(\d+)$`)

type mapPoint struct{ idx, count, b int }

func parseTrace(stderr string) []mapPoint {
	var out []mapPoint
	for _, m := range vmsRe.FindAllStringSubmatch(stderr, -1) {
		i, _ := strconv.Atoi(m[1])
		c, _ := strconv.Atoi(m[2])
		b, _ := strconv.Atoi(m[3])
		out = append(out, mapPoint{i, c, b})
	}
	return out
}

func traceKey(ps []mapPoint) string {
	var sb strings.Builder
	for _, p := range ps {
		fmt.Fprintf(&sb, "%d:%d:%d,", p.idx, p.count, p.b)
	}
	return sb.String()
}

func checkC14(r *Run) int {
	r.Rule = "(1) schedules: the plugin built with a runtime overlay that takes the start of every map iteration from a schedule; all-default schedule, every single deviation (iteration point x every start position), thorough: every pair among the points after configuration parsing; (2) every permutation of YAML top-level keys and of the entries of each map/set-like option and '+' list; oracle: sha256 of the response identical within the class; (3) supplementary free-running repetitions (sampling, not counted as coverage)"
	if err := r.prepare(); err != nil {
		fmt.Fprintln(os.Stderr, err)
		return 2
	}
	defer r.Mod.Cleanup()
	add := func(kind, shape, label, msg string, w interface{}) {
		r.addFinding(&Finding{Property: r.ID, Kind: kind, Shape: shape, Label: label, Msg: msg, Count: 1, Witness: w})
	}
	reqs := c14Requests()
	// ---- (1) schedules
	ovDir := filepath.Join(r.Mod.Root, "rt")
	oj, err := gen.PrepareMapOverlay(ovDir, verifDir)
	overlayBin := filepath.Join(r.Mod.Root, "plugin-mapsched")
	if err == nil {
		err = gen.BuildPlugin(overlayBin, "verif", oj, "GOCACHE="+r.Mod.Cache())
	}
	if err != nil {
		r.note("map-iteration scheduler unavailable (%v): schedule exploration skipped, exhaustive=false", err)
		r.Exhaustive = false
	} else {
		r.phase("overlay build")
		for _, rq := range reqs {
			yaml := rq.cfg.YAML(nil, nil)
			mk := func(sched string, trace bool) *gExec {
				env := []string{"VERIF_MAPSCHED=" + sched}
				if trace {
					env = append(env, "VERIF_MAPTRACE=1")
				}
				return &gExec{Label: rq.name + " sched=" + sched, FD: rq.fd, YAML: yaml, Env: env, Param: rq.param}
			}
			a, b := mk("-", true), mk("-", true)
			r.runAll([]*gExec{a, b}, overlayBin)
			pts := parseTrace(a.Res.Stderr)
			if a.Res.ExitCode != 0 || len(pts) == 0 {
				r.HarnessErrs = append(r.HarnessErrs, fmt.Sprintf("%s: default schedule run failed or printed no trace (exit %d): %s", rq.name, a.Res.ExitCode, lastLines(a.Res.Stderr, 2)))
				continue
			}
			if b.Res.ExitCode == 0 && sha(a.Res.Stdout) != sha(b.Res.Stdout) {
				// the same request under the same schedule answered differently: whatever the scheduler does
				// not own (the hash seed of maps with more than one bucket) decides the output
				r.Outcomes["same-request-different-output"]++
				add("output-differs-between-identical-runs", rq.name, a.Label, "two runs of the same request under the default schedule give different responses: "+firstDiffLine(a.Res.Content(), b.Res.Content()),
					map[string]interface{}{"kind": "schedule", "request": rq.name, "schedule": "VERIF_MAPSCHED=-", "config": yaml, "param": rq.param})
				continue
			}
			if traceKey(pts) != traceKey(parseTrace(b.Res.Stderr)) || sha(a.Res.Stdout) != sha(b.Res.Stdout) {
				r.HarnessErrs = append(r.HarnessErrs, rq.name+": the same schedule run twice gives different traces or outputs; schedule exploration not trusted")
				continue
			}
			refSha := sha(a.Res.Stdout)
			r.Extra["map_iteration_points/"+rq.name] = len(pts)
			var execs []*gExec
			for _, p := range pts {
				maxc := 8<<uint(p.b) - 1
				if maxc > 63 {
					maxc = 63
				}
				for c := 1; c <= maxc; c++ {
					if r.Tier != "thorough" && (len(pts) > 300 || strings.HasPrefix(rq.name, "shape:")) && c != 1 && c != 4 {
						continue // quick tier: two start positions per point for the largest request
					}
					execs = append(execs, mk(fmt.Sprintf("%d:%d", p.idx, c), false))
				}
			}
			if r.Tier == "thorough" {
				// pairs among the last 40 points (after configuration parsing has begun)
				start := len(pts) - 40
				if start < 0 {
					start = 0
				}
				for i := start; i < len(pts); i++ {
					for j := i + 1; j < len(pts); j++ {
						for _, c1 := range []int{1, 3, 5, 7} {
							for _, c2 := range []int{1, 2, 4, 7} {
								execs = append(execs, mk(fmt.Sprintf("%d:%d,%d:%d", pts[i].idx, c1, pts[j].idx, c2), false))
							}
						}
					}
				}
			}
			r.runAll(execs, overlayBin)
			for _, e := range execs {
				if e.Res.ExitCode != 0 || sha(e.Res.Stdout) != refSha {
					r.Outcomes["schedule-changes-output"]++
					add("output-depends-on-map-iteration-order", rq.name, e.Label, fmt.Sprintf("schedule %s changes the response (exit %d): %s", e.Env[0], e.Res.ExitCode, firstDiffLine(a.Res.Content(), e.Res.Content())),
						map[string]interface{}{"kind": "schedule", "request": rq.name, "schedule": e.Env[0], "config": yaml})
				} else {
					r.Outcomes["schedule-same-output"]++
				}
			}
			r.States += len(execs) + 1
			if len(r.Samples) < 3 && len(execs) > 0 {
				r.Samples = append(r.Samples, map[string]interface{}{"request": rq.name, "schedule": execs[len(execs)/2].Env[0], "points": len(pts), "sha": refSha})
			}
		}
		r.phase("schedules")
	}
	// ---- (2) entry-order permutations; run under the default map-iteration schedule when the
	// scheduler is available, so that a difference is due to the entry order alone
	bin := r.Mod.Tools.Plugin
	var fixedSched []string
	if err == nil {
		bin = overlayBin
		fixedSched = []string{"VERIF_MAPSCHED=-"}
	}
	for _, rq := range reqs[:2] { // entry orders: the two configuration-heavy requests
		ref := &gExec{Label: rq.name + " canonical order", FD: rq.fd, YAML: rq.cfg.YAML(nil, nil)}
		var execs []*gExec
		// top-level key order: all permutations of 4 chosen keys
		keys := []string{"types", "computed_fields", "name_overrides", "validators"}
		for _, p := range permutations(4) {
			var ks []string
			for _, i := range p {
				ks = append(ks, keys[i])
			}
			// moving the chosen keys to the front in this order also moves them relative to all others
			execs = append(execs, &gExec{Label: fmt.Sprintf("%s key-order=%v", rq.name, ks), FD: rq.fd, YAML: rq.cfg.YAML(&dsl.YAMLOrder{Keys: ks}, nil)})
		}
		// reverse of everything
		execs = append(execs, &gExec{Label: rq.name + " key-order=reverse", FD: rq.fd, YAML: rq.cfg.YAML(&dsl.YAMLOrder{Keys: []string{"injected_fields", "duration_type", "time_type", "suffixes", "custom_types", "plan_modifiers", "validators", "name_overrides", "sensitive_fields", "computed_fields", "required_fields", "exclude_fields", "import_path_overrides", "use_state_for_unknown_by_default", "duration_custom_type", "default_package_name", "target_package_name", "sort", "types"}}, nil)})
		// entry order within each option
		sizes := map[string]int{"types": len(rq.cfg.Types), "exclude_fields": len(rq.cfg.Exclude), "required_fields": len(rq.cfg.Required), "computed_fields": len(rq.cfg.Computed), "sensitive_fields": len(rq.cfg.Sensitive),
			"name_overrides": len(rq.cfg.NameOverrides), "validators": len(rq.cfg.Validators), "plan_modifiers": len(rq.cfg.PlanModifiers), "injected_fields": len(rq.cfg.Injected), "suffixes": len(rq.cfg.Suffixes)}
		for k, n := range rq.cfg.Injected {
			sizes["injected_fields/"+k] = len(n)
		}
		for opt, n := range sizes {
			if n < 2 {
				continue
			}
			if n <= 4 {
				for _, p := range permutations(n)[1:] {
					execs = append(execs, &gExec{Label: fmt.Sprintf("%s %s-order=%v", rq.name, opt, p), FD: rq.fd, YAML: rq.cfg.YAML(&dsl.YAMLOrder{Perm: map[string][]int{opt: p}}, nil)})
				}
			} else {
				// larger options: reverse and every rotation
				for s := 1; s < n; s++ {
					p := make([]int, n)
					for i := range p {
						p[i] = (i + s) % n
					}
					execs = append(execs, &gExec{Label: fmt.Sprintf("%s %s-rotate=%d", rq.name, opt, s), FD: rq.fd, YAML: rq.cfg.YAML(&dsl.YAMLOrder{Perm: map[string][]int{opt: p}}, nil)})
				}
				p := make([]int, n)
				for i := range p {
					p[i] = n - 1 - i
				}
				execs = append(execs, &gExec{Label: fmt.Sprintf("%s %s-reversed", rq.name, opt), FD: rq.fd, YAML: rq.cfg.YAML(&dsl.YAMLOrder{Perm: map[string][]int{opt: p}}, nil)})
			}
		}
		// '+' lists on the command line
		only := map[string]bool{}
		for _, k := range []string{"sort", "target_package_name", "default_package_name", "duration_custom_type", "use_state_for_unknown_by_default", "import_path_overrides", "name_overrides", "validators", "plan_modifiers", "custom_types", "suffixes", "time_type", "duration_type", "injected_fields", "required_fields", "sensitive_fields", "exclude_fields"} {
			only[k] = true
		}
		lists := map[string][]string{"types": rq.cfg.Types, "computed_fields": rq.cfg.Computed}
		var refParam *gExec
		if len(rq.cfg.Types) >= 2 && len(rq.cfg.Computed) >= 2 {
			mkp := func(tp, cp []int) *gExec {
				var t, c []string
				for _, i := range tp {
					t = append(t, lists["types"][i])
				}
				for _, i := range cp {
					c = append(c, lists["computed_fields"][i])
				}
				return &gExec{Label: fmt.Sprintf("%s param types=%v computed=%v", rq.name, tp, cp), FD: rq.fd, YAML: rq.cfg.YAML(nil, only), Param: "types=" + strings.Join(t, "+") + ",computed_fields=" + strings.Join(c, "+")}
			}
			// all permutations of short lists; rotations and the reverse of longer ones
			permsOf := func(n int) [][]int {
				if n <= 5 {
					return permutations(n)
				}
				id := make([]int, n)
				for i := range id {
					id[i] = i
				}
				out := [][]int{id}
				for s := 1; s < n; s++ {
					p := make([]int, n)
					for i := range p {
						p[i] = (i + s) % n
					}
					out = append(out, p)
				}
				rev := make([]int, n)
				for i := range rev {
					rev[i] = n - 1 - i
				}
				return append(out, rev)
			}
			idT := permsOf(len(rq.cfg.Types))
			idC := permsOf(len(rq.cfg.Computed))
			refParam = mkp(idT[0], idC[0])
			for _, tp := range idT {
				for _, cp := range idC {
					execs = append(execs, mkp(tp, cp))
				}
			}
		}
		all := append([]*gExec{ref}, execs...)
		if refParam != nil {
			all = append(all, refParam)
		}
		for _, e := range all {
			e.Env = fixedSched
		}
		r.runAll(all, bin)
		if ref.Res.ExitCode != 0 {
			r.HarnessErrs = append(r.HarnessErrs, rq.name+": canonical-order run failed: "+lastLines(ref.Res.Stderr, 2))
			continue
		}
		for _, e := range execs {
			want := ref
			if strings.Contains(e.Label, " param ") {
				want = refParam
			}
			if e.Res.ExitCode != 0 || sha(e.Res.Stdout) != sha(want.Res.Stdout) {
				r.Outcomes["entry-order-changes-output"]++
				shape := "entry-order"
				if i := strings.Index(e.Label, " "); i > 0 {
					shape = strings.SplitN(e.Label[i+1:], "=", 2)[0]
				}
				add("output-depends-on-entry-order", shape, e.Label, fmt.Sprintf("permuted configuration changes the response (exit %d): %s", e.Res.ExitCode, firstDiffLine(want.Res.Content(), e.Res.Content())),
					map[string]interface{}{"kind": "request", "label": e.Label, "config": e.YAML, "param": e.Param})
			} else {
				r.Outcomes["entry-order-same-output"]++
			}
		}
		r.States += len(all)
		if len(r.Samples) < 5 && len(execs) > 0 {
			r.Samples = append(r.Samples, map[string]interface{}{"request": execs[0].Label, "sha": sha(ref.Res.Stdout)})
		}
	}
	r.phase("entry orders")
	// ---- (3) supplementary: free-running repetitions with the stock runtime
	reps := 10
	if r.Tier == "thorough" {
		reps = 40
	}
	for _, rq := range reqs {
		var execs []*gExec
		for i := 0; i < reps; i++ {
			execs = append(execs, &gExec{Label: fmt.Sprintf("%s free-run %d", rq.name, i), FD: rq.fd, YAML: rq.cfg.YAML(nil, nil)})
		}
		r.runAll(execs, r.Mod.Tools.Plugin)
		for _, e := range execs[1:] {
			if sha(e.Res.Stdout) != sha(execs[0].Res.Stdout) {
				add("output-differs-between-runs", rq.name, e.Label, "two runs of the same request differ: "+firstDiffLine(execs[0].Res.Content(), e.Res.Content()), map[string]interface{}{"kind": "request", "label": e.Label})
			} else {
				r.Outcomes["free-run-same-output"]++
			}
		}
	}
	r.Extra["supplementary_free_runs_per_request"] = reps
	r.Nontrivial = r.States
	r.Bounds = append(r.Bounds, "map-iteration schedules with <=1 deviation (thorough: <=2 among the last 40 points); start positions: all 8 in-bucket offsets for maps of <=8 entries, up to 63 (bucket, offset) starts for larger maps, hash seed pinned")
	return r.finish()
}
