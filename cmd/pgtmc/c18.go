package main

import (
	"fmt"
	"os"
	"strings"

	"verif/internal/dsl"
	"verif/internal/scratch"
	"verif/internal/space"
)

type badKind struct {
	name  string
	field func() *dsl.Field
	cfg   func(c *dsl.Config)
}

func badKinds() []badKind {
	return []badKind{
		{"time-without-time_type", func() *dsl.Field {
			return &dsl.Field{Name: "Bad", Num: 7, T: dsl.Msg, Ref: dsl.Timestamp, StdTime: true}
		}, func(c *dsl.Config) { c.TimeType = nil }},
		{"duration-without-duration_type", func() *dsl.Field {
			return &dsl.Field{Name: "Bad", Num: 7, T: dsl.Msg, Ref: dsl.Duration, StdDur: true}
		}, func(c *dsl.Config) { c.DurationType = nil }},
		{"castduration-without-duration_type", func() *dsl.Field {
			return &dsl.Field{Name: "Bad", Num: 7, T: dsl.Int64, CastType: "Duration"}
		}, func(c *dsl.Config) { c.DurationType = nil }},
		{"map-int32-key", func() *dsl.Field {
			return &dsl.Field{Name: "Bad", Num: 7, T: dsl.String, Card: dsl.Map, MapKey: dsl.Int32}
		}, func(c *dsl.Config) {}},
		{"map-int32-castkey", func() *dsl.Field {
			// a key cast type does not make a non-string key mappable
			return &dsl.Field{Name: "Bad", Num: 7, T: dsl.String, Card: dsl.Map, MapKey: dsl.Int32, CastKey: "Slot"}
		}, func(c *dsl.Config) {}},
		{"map-bool-key", func() *dsl.Field {
			return &dsl.Field{Name: "Bad", Num: 7, T: dsl.Msg, Ref: "Tiny", Card: dsl.Map, MapKey: dsl.Bool}
		}, func(c *dsl.Config) {}},
		{"map-int64-key", func() *dsl.Field {
			return &dsl.Field{Name: "Bad", Num: 7, T: dsl.Int64, Card: dsl.Map, MapKey: dsl.Int64}
		}, func(c *dsl.Config) {}},
	}
}

// c18File places the bad field below root Beta at the given position chain ("" = in Beta itself).
func c18File(bk badKind, chainPos []string, sole bool) (*dsl.File, string, string) {
	f := space.F5File()
	// mappable roots whose names share a prefix with the failing root's name, declared before and after it
	betaV2 := &dsl.Message{Name: "BetaV2", Fields: []*dsl.Field{{Name: "Title", Num: 1, T: dsl.String}, {Name: "Meta", Num: 2, T: dsl.Msg, Ref: "Shared"}}}
	bet := &dsl.Message{Name: "Bet", Fields: []*dsl.Field{{Name: "Stake", Num: 1, T: dsl.Int64}}}
	f.Messages = append(append([]*dsl.Message{betaV2}, f.Messages...), bet)
	var beta *dsl.Message
	for _, m := range f.Messages {
		if m.Name == "Beta" {
			beta = m
		}
	}
	bad := bk.field()
	if len(chainPos) == 0 {
		beta.Fields = append(beta.Fields, bad)
		return f, "Beta.Bad", "Beta.Bad"
	}
	// innermost message that holds the bad field
	hole := &dsl.Message{Name: "Hole", Fields: []*dsl.Field{{Name: "Fine", Num: 1, T: dsl.String}, bad}}
	if sole {
		// the unmappable field is the only field of its message
		hole.Fields = []*dsl.Field{bad}
	}
	f.Messages = append(f.Messages, hole)
	inner := "Hole"
	path := ""
	// build wrappers from the inside out
	var names []string
	for i := len(chainPos) - 1; i >= 1; i-- {
		w := wrapC18(fmt.Sprintf("Wrap%d", i), inner, chainPos[i])
		f.Messages = append(f.Messages, w)
		names = append([]string{fieldNameOf(w)}, names...)
		inner = w.Name
	}
	// attach to Beta at chainPos[0]
	att := wrapC18("tmp", inner, chainPos[0])
	for _, fl := range att.Fields {
		if fl.Name == "Sidetmp" {
			continue
		}
		fl.Num += 20
		beta.Fields = append(beta.Fields, fl)
	}
	beta.Oneofs = append(beta.Oneofs, att.Oneofs...)
	first := fieldNameOf(att)
	embedded0 := strings.HasPrefix(chainPos[0], "P6")
	// option path: embedded steps use the containing message's name
	path = "Beta"
	if !embedded0 {
		path += "." + first
	}
	cur := inner
	_ = cur
	for i, n := range names {
		if strings.HasPrefix(chainPos[i+1], "P6") {
			// embedded below the root: the path restarts at the containing message name
			path = fmt.Sprintf("Wrap%d", i+1)
			continue
		}
		path += "." + n
	}
	return f, path + ".Bad", "Hole.Bad"
}

func fieldNameOf(m *dsl.Message) string { return m.Fields[0].Name }

func wrapC18(outer, inner, pos string) *dsl.Message {
	m := &dsl.Message{Name: outer}
	f := &dsl.Field{Name: "Sub" + outer, Num: 1, T: dsl.Msg, Ref: inner}
	no := func() { f.Nullable = dsl.B(false) }
	switch pos {
	case "P1nullable":
	case "P2nonnull":
		no()
	case "P3listptr":
		f.Card = dsl.Repeated
	case "P3listval":
		f.Card = dsl.Repeated
		no()
	case "P4mapptr":
		f.Card = dsl.Map
	case "P4mapval":
		f.Card = dsl.Map
		no()
	case "P5oneof":
		f.Oneof = "Pick" + outer
		m.Oneofs = []string{"Pick" + outer}
		m.Fields = append(m.Fields, &dsl.Field{Name: "Alt" + outer, Num: 9, T: dsl.String, Oneof: "Pick" + outer})
	case "P6embedval":
		f.Name = inner
		f.Embed = true
		no()
	case "P6embedptr":
		f.Name = inner
		f.Embed = true
	}
	m.Fields = append([]*dsl.Field{f}, m.Fields...)
	m.Fields = append(m.Fields, &dsl.Field{Name: "Side" + outer, Num: 10, T: dsl.String})
	return m
}

func checkC18(r *Run) int {
	r.Rule = "one plugin execution per (unmappable kind x position chain below root Beta (depth 0..2) x exclusion form {none, by path, by Message.Field} x set of other selected roots); oracle: bad root absent + warning naming it + other roots byte-identical to a request without the bad root + file compiles; with exclusion: all functions present, compiles, run-time schema equals the oracle's spec"
	if err := r.prepare(); err != nil {
		fmt.Fprintln(os.Stderr, err)
		return 2
	}
	defer r.Mod.Cleanup()
	var chains [][]string
	chains = append(chains, nil)
	for _, p := range space.Positions {
		chains = append(chains, []string{p})
	}
	if r.Tier == "thorough" {
		for _, p := range space.Positions {
			for _, q := range space.Positions {
				chains = append(chains, []string{p, q})
			}
		}
	} else {
		for i, p := range space.Positions {
			chains = append(chains, []string{p, space.Positions[(i+3)%len(space.Positions)]})
		}
	}
	others := [][]string{{"Alpha"}, {"Alpha", "Gamma", "Delta"}, {"BetaV2", "Bet"}}
	if r.Tier == "thorough" {
		others = append(others, []string{"Gamma", "Delta"})
	}
	type meta struct {
		kind, chain, excl string
		others            []string
		ref               int // index of the reference execution (bad root not selected)
		c                 *space.Case
	}
	var execs []*gExec
	var metas []meta
	var compile []*space.Case
	for _, bk := range badKinds() {
		for ci, ch := range append(append([][]string{}, chains...), chains[1:]...) {
			sole := ci >= len(chains)
			file, path, typeKey := c18File(bk, ch, sole)
			file.Pkg, file.Name = "f5", "f5.proto"
			fd := file.Descriptor()
			soleTag := ""
			if sole {
				soleTag = "|only-field"
			}
			for _, oth := range others {
				// reference: bad root not selected
				refCfg := space.BaseConfig(oth...)
				bk.cfg(refCfg)
				refIdx := len(execs)
				execs = append(execs, &gExec{Label: fmt.Sprintf("ref|%s|%s%s|%s", bk.name, strings.Join(ch, ">"), soleTag, strings.Join(oth, "+")), FD: fd, YAML: refCfg.YAML(nil, nil)})
				metas = append(metas, meta{kind: bk.name, chain: strings.Join(ch, ">") + soleTag, excl: "ref", others: oth, ref: -1})
				for _, ex := range []string{"none", "path", "typekey"} {
					cfg := space.BaseConfig(append(append([]string{}, oth...), "Beta")...)
					bk.cfg(cfg)
					switch ex {
					case "path":
						cfg.Exclude = []string{path}
					case "typekey":
						cfg.Exclude = []string{typeKey}
					}
					label := fmt.Sprintf("%s|%s%s|excl=%s|%s", bk.name, strings.Join(ch, ">"), soleTag, ex, strings.Join(oth, "+"))
					fc := *file
					c := &space.Case{Label: "C18/" + label, Family: "F5x", Tags: map[string]string{"class": "multiroot", "card": bk.name, "vt": "unmappable", "pos": strings.Join(ch, ">"), "excl": ex}, File: &fc, Cfg: cfg}
					execs = append(execs, &gExec{Label: label, FD: fd, YAML: cfg.YAML(nil, nil)})
					metas = append(metas, meta{kind: bk.name, chain: strings.Join(ch, ">") + soleTag, excl: ex, others: oth, ref: refIdx, c: c})
					// (thorough compiles every chain for the first set of other roots only: one harness binary
					// holding every combination exceeds what the linker can address)
					if (len(oth) == 1 && (!sole || len(ch) == 1)) || (r.Tier == "thorough" && len(oth) == 1) {
						compile = append(compile, c)
					}
				}
			}
		}
	}
	// ---- second scenario: the unmappable field sits in a message shared by several selected roots
	type smeta struct {
		label    string
		sel      []string
		bad      map[string]bool
		ref      *gExec
		yaml     string
		hostExcl string
	}
	var sexecs []*gExec
	var smetas []smeta
	for _, bk := range badKinds() {
		for _, host := range []string{"Shared", "Tiny", "Deep", "Alpha"} {
			file := space.F5File()
			file.Pkg, file.Name = "f5", "f5.proto"
			for _, m := range file.Messages {
				if m.Name == host {
					m.Fields = append(m.Fields, bk.field())
				}
			}
			fd := file.Descriptor()
			for _, sel := range [][]string{space.F5Roots, {"Alpha", "Beta"}, {"Gamma", "Delta"}, {"Beta", "Gamma"}, {"Delta", "Beta", "Alpha"}} {
				for _, ex := range []string{"none", "typekey", "one-path"} {
					cfg := space.BaseConfig(sel...)
					bk.cfg(cfg)
					switch ex {
					case "typekey":
						cfg.Exclude = []string{host + ".Bad"}
					case "one-path":
						// excludes a single occurrence only: the first path of the first selected root that reaches the host
						probe := space.BaseConfig(sel[0])
						for _, p := range space.AllPaths(file, probe.StdTypes()) {
							if strings.HasSuffix(p, ".Bad") {
								cfg.Exclude = []string{p}
								break
							}
						}
						if len(cfg.Exclude) == 0 {
							continue
						}
					}
					bad := map[string]bool{}
					var good []string
					for _, rt := range sel {
						if _, err := dsl.BuildSpec(file, cfg, rt); err != nil {
							bad[rt] = true
						} else {
							good = append(good, rt)
						}
					}
					label := fmt.Sprintf("shared|%s|in=%s|excl=%s|%s", bk.name, host, ex, strings.Join(sel, "+"))
					e := &gExec{Label: label, FD: fd, YAML: cfg.YAML(nil, nil)}
					var ref *gExec
					if len(good) > 0 && len(bad) > 0 {
						rc := cfg.Clone()
						rc.Types = good
						ref = &gExec{Label: "ref|" + label, FD: fd, YAML: rc.YAML(nil, nil)}
						sexecs = append(sexecs, ref)
						smetas = append(smetas, smeta{label: "ref"})
					}
					sexecs = append(sexecs, e)
					smetas = append(smetas, smeta{label: label, sel: sel, bad: bad, ref: ref, yaml: e.YAML, hostExcl: bk.name + "@shared:" + host + "/excl=" + ex})
				}
			}
		}
	}
	r.runAll(sexecs, r.Mod.Tools.Plugin)
	for i, e := range sexecs {
		m := smetas[i]
		if m.label == "ref" {
			continue
		}
		add := func(kind, msg string) {
			r.addFinding(&Finding{Property: r.ID, Kind: kind, Shape: m.hostExcl, Label: e.Label, Msg: msg, Count: 1, Witness: map[string]interface{}{"kind": "request", "label": e.Label, "config": m.yaml}})
		}
		if e.Res.ExitCode != 0 || e.Res.Resp == nil || e.Res.Resp.Error != nil || len(e.Res.Resp.File) != 1 {
			add("generation-failed", fmt.Sprintf("exit=%d error=%q stderr=%s", e.Res.ExitCode, e.Res.Resp.GetError(), lastLines(e.Res.Stderr, 2)))
			continue
		}
		texts, err := funcTexts(e.Res.Content())
		if err != nil {
			add("does-not-parse", err.Error())
			continue
		}
		var refTexts map[string]string
		if m.ref != nil {
			refTexts, _ = funcTexts(m.ref.Res.Content())
		}
		for _, rt := range m.sel {
			n := 0
			for _, fn := range []string{"GenSchema" + rt, "Copy" + rt + "FromTerraform", "Copy" + rt + "ToTerraform"} {
				if _, ok := texts[fn]; ok {
					n++
				}
			}
			if m.bad[rt] {
				r.Outcomes["shared/unmappable-root"]++
				if n != 0 {
					add("partial-or-silent-generation", fmt.Sprintf("%d of the three functions of %s are emitted although it reaches a field that cannot be mapped", n, rt))
				}
				if !hasWarningFor(e.Res.Stderr, rt) {
					add("no-diagnostic-naming-type", "no warning naming "+rt+" on stderr")
				}
			} else {
				r.Outcomes["shared/mappable-root"]++
				if n != 3 {
					add("mappable-type-lost", fmt.Sprintf("%d of the three functions of %s are emitted although every reachable field can be mapped", n, rt))
				}
				for _, fn := range []string{"GenSchema" + rt, "Copy" + rt + "FromTerraform", "Copy" + rt + "ToTerraform"} {
					if refTexts != nil && refTexts[fn] != "" && texts[fn] != refTexts[fn] {
						add("other-type-affected", "function "+fn+" differs from the request without the unmappable roots: "+firstDiffLine(refTexts[fn], texts[fn]))
					}
				}
			}
		}
	}
	r.runAll(execs, r.Mod.Tools.Plugin)
	r.phase("plugin runs")
	for i, e := range execs {
		m := metas[i]
		shape := m.kind + "@" + m.chain + "/excl=" + m.excl
		add := func(kind, msg string) {
			r.addFinding(&Finding{Property: r.ID, Kind: kind, Shape: shape, Label: e.Label, Msg: msg, Count: 1, Witness: map[string]interface{}{"kind": "request", "label": e.Label, "config": e.YAML, "proto": "F5 + unmappable field, see label"}})
		}
		if e.Res.ExitCode != 0 || e.Res.Resp == nil || e.Res.Resp.Error != nil || len(e.Res.Resp.File) != 1 {
			add("generation-failed", fmt.Sprintf("exit=%d error=%q stderr=%s", e.Res.ExitCode, e.Res.Resp.GetError(), lastLines(e.Res.Stderr, 2)))
			continue
		}
		if m.excl == "ref" {
			continue
		}
		texts, err := funcTexts(e.Res.Content())
		if err != nil {
			add("does-not-parse", err.Error())
			continue
		}
		betaFns := []string{"GenSchemaBeta", "CopyBetaFromTerraform", "CopyBetaToTerraform"}
		present := 0
		for _, n := range betaFns {
			if _, ok := texts[n]; ok {
				present++
			}
		}
		refTexts, _ := funcTexts(execs[m.ref].Res.Content())
		switch m.excl {
		case "none":
			r.Outcomes["unmappable-not-excluded"]++
			if present != 0 {
				add("partial-or-silent-generation", fmt.Sprintf("%d of the three functions of Beta are emitted although field Bad cannot be mapped", present))
			}
			if !hasWarningFor(e.Res.Stderr, "Beta") {
				add("no-diagnostic-naming-type", "no warning naming Beta on stderr: "+lastLines(e.Res.Stderr, 3))
			}
		default:
			r.Outcomes["unmappable-excluded"]++
			if present != 3 {
				add("exclusion-does-not-restore-generation", fmt.Sprintf("%d of the three functions of Beta are emitted although the offending field is excluded (%s)", present, m.excl))
			}
		}
		// other roots unaffected
		for n, txt := range refTexts {
			if got, ok := texts[n]; !ok {
				add("other-type-lost", "function "+n+" of another selected type disappears")
			} else if got != txt {
				add("other-type-affected", "function "+n+" differs from the request without the bad root: "+firstDiffLine(txt, got))
			}
		}
		for n := range texts {
			if _, ok := refTexts[n]; !ok && !strings.Contains(n, "Beta") {
				add("unexpected-function", "function "+n)
			}
		}
		if len(r.Samples) < 4 {
			r.Samples = append(r.Samples, map[string]interface{}{"request": e.Label, "beta_functions_present": present})
		}
	}
	// compile + schema walk for the variants
	space.SortCases(compile)
	built := r.Mod.Generate(compile)
	bin, err := r.Mod.Build(nil)
	if err != nil {
		r.HarnessErrs = append(r.HarnessErrs, err.Error())
	}
	for _, b := range built {
		r.Transitions++
		if b.CompileErr != "" {
			r.addFinding(&Finding{Property: r.ID, Kind: "does-not-compile", Shape: b.Tags["card"] + "@" + b.Tags["pos"] + "/excl=" + b.Tags["excl"], Label: b.Label, Msg: firstLines(b.CompileErr, 6), Count: 1, Witness: witnessOf(b)})
		} else if b.Skip != "" {
			r.Skipped = append(r.Skipped, b.Label+": "+b.Skip)
		} else {
			r.Outcomes["compiles"]++
		}
	}
	r.phase("compile")
	if bin != "" {
		lines, errs := r.Mod.RunHarness(bin, 16, []string{"--prop", "SCHEMA", "--tier", r.Tier}, 600)
		r.HarnessErrs = append(r.HarnessErrs, errs...)
		r.absorb(lines)
	}
	r.States, r.Nontrivial = r.States+len(execs)+len(sexecs), r.Nontrivial+len(execs)+len(sexecs)
	return r.finish()
}

var _ = scratch.TopFuncs
