package main

import (
	"fmt"
	"os"
	"strings"

	"verif/internal/scratch"

	"verif/explorer"
	"verif/internal/space"
)

func checkC13(r *Run) int {
	r.Rule = "per descriptor of the families: the same-package build and the separate-package builds (default_package_name = full import path; short name + import_path_overrides; struct package directory with dash and dot) compiled side by side; oracle: all compile, the separate variant imports the struct package at the configured path under a qualifier, and schema + behaviour digests over the K alphabets are equal to the same-package variant"
	if err := r.prepare(); err != nil {
		fmt.Fprintln(os.Stderr, err)
		return 2
	}
	defer r.Mod.Cleanup()
	r.OwnSkipHandling = true
	var base []*space.Case
	base = append(base, space.F1("X")...)
	base = append(base, space.F4()...)
	base = append(base, space.F5()...)
	if r.Tier == "thorough" {
		base = append(base, space.F1("my_field")...)
		base = append(base, space.F2(space.Representatives(), false)...)
		base = append(base, space.F3(space.Representatives())...)
	} else {
		base = append(base, space.F2(space.Representatives()[:14], false)...)
	}
	var cases []*space.Case
	for _, c := range base {
		same := space.Variant(c, false, false, "none")
		same.Group, same.Variant = c.Label, "same"
		cases = append(cases, same)
		full := space.Variant(c, false, true, "none")
		full.Group, full.Variant = c.Label, "separate/full-path"
		full.Label += "|full"
		cases = append(cases, full)
		short := space.Variant(c, false, true, "none")
		short.Group, short.Variant = c.Label, "short+override"
		short.Label += "|short+override"
		cases = append(cases, short)
		if c.Family != "F1" {
			// per-field options in the short Message.Field form must reach the same fields in both layouts
			for _, sep := range []bool{false, true} {
				o := space.Variant(c, false, sep, "typekey-options")
				o.Group = c.Label + "#options"
				o.Variant = map[bool]string{false: "same", true: "separate/full-path"}[sep]
				cases = append(cases, o)
			}
		}
		if c.Family != "F1" || r.Tier == "thorough" || strings.Contains(c.Label, "msg") || strings.Contains(c.Label, "oneof") {
			odd := space.Variant(c, true, true, "none")
			odd.Group, odd.Variant = c.Label, "separate/dash.dot"
			odd.StructImport = "my-structs.v1"
			odd.Cfg.Sort = false
			odd.Label += "|dash.dot"
			cases = append(cases, odd)
			// the target package is named like the last element of the struct package's import path
			tw := space.Variant(c, false, true, "none")
			tw.Group, tw.Variant = c.Label, "separate/same-base-name"
			tw.StructImport, tw.TFPkg, tw.TFDir = "api/types", "types", "provider/types"
			tw.Label += "|same-base-name"
			cases = append(cases, tw)
			// ... and the same with default_package_name given as that short name plus an import_path_overrides entry
			ts := space.Variant(c, false, true, "none")
			ts.Group, ts.Variant = c.Label, "short+override"
			ts.StructImport, ts.TFPkg, ts.TFDir = "api/types", "types", "provider/types"
			ts.ShortDefaultPkg = "types"
			ts.Label += "|same-base-name-short"
			cases = append(cases, ts)
			// the proto file carries a go_package option and lives in a sub-directory (its Go import path is not ".")
			gp := space.Variant(c, false, true, "none")
			gp.Group, gp.Variant = c.Label, "separate/go_package"
			gp.File.GoPackage = "example.com/acme/api/types;apitypes"
			gp.ProtoDir = "api/v1/"
			gp.Label += "|go_package"
			cases = append(cases, gp)
			// dotted proto package: protoc-gen-gogo names the struct package <id>_v1; target package with an underscore
			dp := space.Variant(c, false, true, "none")
			dp.Group, dp.Variant = c.Label, "separate/dotted-proto-package"
			dp.ProtoPkgSuffix, dp.TFPkg = ".v1", "tf_schema"
			dp.Label += "|dotted-proto-package"
			cases = append(cases, dp)
		}
	}
	evaluate := func(cases []*space.Case, modName string) {
		built, bin, err := r.generate(cases)
		if err != nil {
			r.HarnessErrs = append(r.HarnessErrs, err.Error())
			return
		}
		r.phase("generate+build")
		// group membership for compile verdicts
		okSame := map[string]bool{}
		for _, b := range built {
			if b.Variant == "same" && b.CompileErr == "" && b.Skip == "" {
				okSame[b.Group] = true
			}
		}
		for _, b := range built {
			if b.Variant == "same" {
				continue
			}
			if b.Skip != "" {
				// the plugin (or protoc-gen-gogo) produced nothing for this layout although the same-package variant is fine
				if okSame[b.Group] {
					msg := b.Skip
					if b.TF != nil {
						msg += ": " + lastLines(b.TF.Stderr, 3)
					}
					r.addFinding(&Finding{Property: r.ID, Kind: "separate-package-generation-fails", Shape: caseShape(b.Case) + "/" + b.Variant, Label: b.Label, Msg: msg, Count: 1, Witness: witnessOf(b)})
				}
				continue
			}
			r.Transitions++
			shape := caseShape(b.Case) + "/" + b.Variant
			if b.CompileErr != "" {
				if !okSame[b.Group] {
					r.Outcomes["both-variants-fail-to-compile"]++
					continue // the same-package variant does not compile either: C01's finding, not a layout problem
				}
				r.addFinding(&Finding{Property: r.ID, Kind: "separate-package-does-not-compile", Shape: shape, Label: b.Label, Msg: firstLines(b.CompileErr, 6), Count: 1, Witness: witnessOf(b)})
				continue
			}
			r.Outcomes["separate-compiles"]++
			src := b.TF.Content()
			imp := modName + "/cases/" + b.ID + "/"
			if b.StructImport != "" {
				imp += b.StructImport
			} else {
				imp += "structs"
			}
			if !strings.Contains(src, " \""+imp+"\"") {
				r.addFinding(&Finding{Property: r.ID, Kind: "struct-package-not-imported-at-configured-path", Shape: shape, Label: b.Label, Msg: "generated file does not import " + imp + " under a qualifier", Count: 1, Witness: witnessOf(b)})
			}
			if !strings.HasPrefix(strings.TrimSpace(afterLicense(src)), "package "+scratch.TFPkg(b.Case)) {
				// the package clause is decided by C01; here only the target package
				r.addFinding(&Finding{Property: r.ID, Kind: "wrong-target-package", Shape: shape, Label: b.Label, Msg: "generated file does not declare package " + scratch.TFPkg(b.Case), Count: 1, Witness: witnessOf(b)})
			}
		}
		lines, errs := r.Mod.RunHarness(bin, 16, []string{"--prop", "DIGEST", "--tier", "quick"}, 1200)
		r.HarnessErrs = append(r.HarnessErrs, errs...)
		res := r.absorb(lines)
		r.phase("explore")
		// reference = the same-package variant of the group
		for _, x := range res {
			if x.Variant == "same" {
				x.Label = " " + x.Label // sorts first: becomes the reference
			}
		}
		compareDigests(r, res, func(x *explorer.Result) string { return x.Group + "/" + x.Root }, "separate-package-variant-behaves-differently")
	}
	evaluate(cases, "scratch")
	// the same comparison in a module whose path starts with a digit (the struct package qualifier
	// then needs the extra "_" protoc-gen-gogo puts in front of such identifiers)
	{
		var sub []*space.Case
		for _, c := range cases {
			if c.Family == "F4" || c.Family == "F5" || (r.Tier == "thorough" && c.Family != "F1") || strings.Contains(c.Label, "single/msgN") || strings.Contains(c.Label, "map/enum/") || strings.Contains(c.Label, "oneof/string") || strings.Contains(c.Label, "single/castDuration") || strings.Contains(c.Label, "embed/Rich/nullable/tag=false") {
				if c.Variant == "same" || c.Variant == "separate/full-path" || c.Variant == "short+override" {
					n := *c
					fc := *c.File
					n.File = &fc
					n.Cfg = c.Cfg.Clone()
					n.ID = ""
					sub = append(sub, &n)
				}
			}
		}
		m2, err := scratch.New(verifDir)
		if err == nil {
			m2.ModName = "9lives.example/scratch"
			m2.Tools = r.Mod.Tools
			m2.GoCache = r.Mod.Cache()
			first := r.Mod
			r.Mod = m2
			evaluate(sub, m2.ModName)
			r.Mod = first
			m2.GoCache = "" // shared with the first module, removed with it
			m2.Cleanup()
		}
	}
	return r.finish()
}

func afterLicense(src string) string {
	if i := strings.Index(src, "\npackage "); i >= 0 {
		return src[i+1:]
	}
	return src
}
