package main

import (
	"fmt"
	"os"
	"sort"
	"strings"

	d "github.com/gogo/protobuf/protoc-gen-gogo/descriptor"

	"verif/internal/dsl"
	"verif/internal/scratch"
	"verif/internal/space"
)

func subsets(all []string) [][]string {
	var out [][]string
	for mask := 1; mask < 1<<len(all); mask++ {
		var s []string
		for i, x := range all {
			if mask&(1<<i) != 0 {
				s = append(s, x)
			}
		}
		out = append(out, s)
	}
	return out
}

// extensions of the request by unrelated material (C12)
type ext struct {
	name  string
	apply func(f *dsl.File) (*dsl.File, []*d.FileDescriptorProto)
}

func otherFile(name string) *d.FileDescriptorProto {
	// every message and field of the unrelated file carries a leading comment, at the same
	// message / field indices that the generated file uses
	o := &dsl.File{Name: name, Pkg: "otherpkg", GettersOff: true, Enums: []*dsl.EnumDecl{{Name: "ForeignKind", Values: []string{"FK_ZERO", "FK_ONE"}}}}
	for i := 0; i < 9; i++ {
		m := &dsl.Message{Name: fmt.Sprintf("Foreign%d", i), Comment: fmt.Sprintf(" Foreign%d belongs to another file", i)}
		for j := 0; j < 6; j++ {
			m.Fields = append(m.Fields, &dsl.Field{Name: fmt.Sprintf("F%d", j), Num: int32(j + 1), T: dsl.String, Comment: fmt.Sprintf(" foreign comment %d/%d must never show up", i, j)})
		}
		o.Messages = append(o.Messages, m)
	}
	return o.Descriptor()
}

func exts() []ext {
	cp := func(f *dsl.File) *dsl.File {
		n := *f
		n.Messages = append([]*dsl.Message{}, f.Messages...)
		n.Enums = append([]*dsl.EnumDecl{}, f.Enums...)
		n.Imports = append([]string{}, f.Imports...)
		return &n
	}
	unrelated := &dsl.Message{Name: "Unrelated", Comment: " Unrelated is not selected", Fields: []*dsl.Field{{Name: "U", Num: 1, T: dsl.String}, {Name: "Stamp", Num: 2, T: dsl.Msg, Ref: dsl.Timestamp, StdTime: true}}}
	return []ext{
		{"none", func(f *dsl.File) (*dsl.File, []*d.FileDescriptorProto) { return f, nil }},
		{"extra-message-last", func(f *dsl.File) (*dsl.File, []*d.FileDescriptorProto) {
			n := cp(f)
			n.Messages = append(n.Messages, unrelated)
			return n, nil
		}},
		{"extra-message-first", func(f *dsl.File) (*dsl.File, []*d.FileDescriptorProto) {
			n := cp(f)
			n.Messages = append([]*dsl.Message{unrelated}, n.Messages...)
			return n, nil
		}},
		{"extra-enum", func(f *dsl.File) (*dsl.File, []*d.FileDescriptorProto) {
			n := cp(f)
			n.Enums = append(n.Enums, &dsl.EnumDecl{Name: "Spare", Values: []string{"SPARE_ZERO", "SPARE_ONE"}})
			return n, nil
		}},
		{"extra-file-present", func(f *dsl.File) (*dsl.File, []*d.FileDescriptorProto) {
			return f, []*d.FileDescriptorProto{otherFile("other/other.proto")}
		}},
		{"extra-file-imported", func(f *dsl.File) (*dsl.File, []*d.FileDescriptorProto) {
			n := cp(f)
			n.Imports = append(n.Imports, "other/other.proto")
			return n, []*d.FileDescriptorProto{otherFile("other/other.proto")}
		}},
	}
}

// c12NamesFile: the common convention "Metadata Metadata = 1", a root that is also nested in
// another root, and a nested path whose names concatenate to another root's name (Spec.Options / SpecOptions).
func c12NamesFile(reverse bool) *dsl.File {
	f := func(name string, num int32, t dsl.T) *dsl.Field { return &dsl.Field{Name: name, Num: num, T: t} }
	msg := func(name string, num int32, ref string) *dsl.Field {
		return &dsl.Field{Name: name, Num: num, T: dsl.Msg, Ref: ref}
	}
	user := &dsl.Message{Name: "User", Fields: []*dsl.Field{f("Name", 1, dsl.String), msg("Metadata", 2, "Metadata"), msg("Spec", 3, "Spec")}}
	metadata := &dsl.Message{Name: "Metadata", Fields: []*dsl.Field{f("ID", 1, dsl.String), {Name: "Labels", Num: 2, T: dsl.String, Card: dsl.Map}}}
	spec := &dsl.Message{Name: "Spec", Fields: []*dsl.Field{msg("Options", 1, "Options"), {Name: "Roles", Num: 2, T: dsl.String, Card: dsl.Repeated}}}
	specOptions := &dsl.Message{Name: "SpecOptions", Fields: []*dsl.Field{f("On", 1, dsl.Bool), msg("Metadata", 2, "Metadata")}}
	options := &dsl.Message{Name: "Options", Fields: []*dsl.Field{f("Level", 1, dsl.Int32), msg("Prefs", 2, "Prefs")}}
	// three different messages share the short name Prefs: one declared inside User, one inside Spec, one
	// at the top level (Go names User_Prefs, Spec_Prefs, Prefs): which of them a field means must not
	// depend on which other roots are built in the same run
	user.Nested = []*dsl.Message{{Name: "Prefs", Fields: []*dsl.Field{f("Theme", 1, dsl.String)}}}
	user.Fields = append(user.Fields, msg("Prefs", 4, "User.Prefs"))
	spec.Nested = []*dsl.Message{{Name: "Prefs", Fields: []*dsl.Field{f("Depth", 1, dsl.Int64), f("Wide", 2, dsl.Bool)}}}
	spec.Fields = append(spec.Fields, msg("Prefs", 3, "Spec.Prefs"))
	prefs := &dsl.Message{Name: "Prefs", Fields: []*dsl.Field{{Name: "Top", Num: 1, T: dsl.String, Card: dsl.Repeated}}}
	ms := []*dsl.Message{user, metadata, spec, specOptions, options, prefs}
	if reverse {
		for i, j := 0, len(ms)-1; i < j; i, j = i+1, j-1 {
			ms[i], ms[j] = ms[j], ms[i]
		}
	}
	return &dsl.File{GettersOff: true, Messages: ms, Pkg: "names", Name: "names.proto"}
}

var c12NamesRoots = []string{"User", "Metadata", "Spec", "SpecOptions", "Options"}

func checkC12(r *Run) int {
	r.Rule = "one plugin execution per (non-empty subset of the 4 roots x sort x request extension); oracle: declared function set = 3 x selected, per-function source text identical across all executions of the same sort setting, every output compiles; distinct = distinct requests"
	if err := r.prepare(); err != nil {
		fmt.Fprintln(os.Stderr, err)
		return 2
	}
	defer r.Mod.Cleanup()
	base := space.F5File()
	base.Pkg, base.Name = "f5", "f5.proto"
	type meta struct {
		types []string
		sort  bool
		ext   string
		world string
	}
	var execs []*gExec
	var metas []meta
	var compile []*space.Case
	extList := exts()
	if r.Tier != "thorough" {
		// quick: every subset with "none", every extension with three subsets
	}
	type world struct {
		name  string
		file  *dsl.File
		roots []string
		exts  []ext
		cfg   func(c *dsl.Config)
	}
	worlds := []world{{"f5", base, space.F5Roots, extList, nil}, {"names", c12NamesFile(false), c12NamesRoots, extList[:1], nil}, {"names-reversed", c12NamesFile(true), c12NamesRoots, extList[:1], nil}}
	// the proto file lives in a sub-directory and has a go_package; the struct package is addressed by a
	// short default_package_name resolved through import_path_overrides, the target package is separate
	layout := space.F5File()
	layout.Pkg, layout.Name, layout.GoPackage = "f5", "api/v1/f5.proto", "example.com/acme/api/types;types"
	worlds = append(worlds, world{"f5-subdir-layout", layout, space.F5Roots, extList[:1], func(c *dsl.Config) {
		c.DefaultPkg = "types"
		c.ImportPathOverrides = map[string]string{"types": "example.com/acme/api/types"}
		c.TargetPkg = "tfschema"
	}})
	// options keyed by a path through a message that other roots reach as well (custom type, rename, exclusion):
	// the other roots' functions must not depend on whether that root is selected too
	worlds = append(worlds, world{"f5-path-options", base, space.F5Roots, extList[:1], func(c *dsl.Config) {
		c.CustomTypes = map[string]string{"Alpha.Meta.Label": "LabelCustom", "Gamma.Deep.Inner.ID": "IDCustom"}
		c.NameOverrides = map[string]string{"Alpha.Items.Tiny.N": "alpha_n"}
		c.Exclude = []string{"Beta.Meta.Tiny.On"}
	}})
	for _, wd := range worlds {
		base := wd.file
		for _, sub := range subsets(wd.roots) {
			for _, srt := range []bool{false, true} {
				for ei, e := range wd.exts {
					f, extra := e.apply(base)
					cfg := space.BaseConfig(sub...)
					cfg.Sort = srt
					if wd.cfg != nil {
						wd.cfg(cfg)
					}
					execs = append(execs, &gExec{Label: fmt.Sprintf("%s|types=%s|sort=%v|ext=%s", wd.name, strings.Join(sub, "+"), srt, e.name), FD: f.Descriptor(), Extra: extra, YAML: cfg.YAML(nil, nil)})
					metas = append(metas, meta{sub, srt, e.name, wd.name})
					if extra == nil && (r.Tier == "thorough" || ei == 0 || len(sub) == 4) && !(e.name == "extra-file-imported") && (wd.name == "f5" || len(sub) >= 4 || r.Tier == "thorough") && wd.cfg == nil {
						cf := *f
						compile = append(compile, &space.Case{Label: "C12/" + execs[len(execs)-1].Label, Family: "F5", Tags: map[string]string{"class": "multiroot", "card": "mixed", "vt": "multiroot", "pos": "deep"}, File: &cf, Cfg: cfg})
					}
				}
			}
		}
	}
	r.runAll(execs, r.Mod.Tools.Plugin)
	r.phase("plugin runs")
	// per (sort, type) -> function name -> text -> first label
	ref := map[string]map[string]string{}
	refLabel := map[string]string{}
	for i, e := range execs {
		m := metas[i]
		add := func(kind, msg string) {
			r.addFinding(&Finding{Property: r.ID, Kind: kind, Shape: "ext:" + m.ext, Label: e.Label, Msg: msg, Count: 1, Witness: map[string]interface{}{"kind": "request", "label": e.Label, "config": e.YAML}})
		}
		if e.Res.ExitCode != 0 || e.Res.Resp == nil || e.Res.Resp.Error != nil || len(e.Res.Resp.File) != 1 {
			add("generation-failed", fmt.Sprintf("exit=%d error=%q stderr=%s", e.Res.ExitCode, e.Res.Resp.GetError(), lastLines(e.Res.Stderr, 2)))
			continue
		}
		src := e.Res.Content()
		texts, err := funcTexts(src)
		if err != nil {
			add("does-not-parse", err.Error())
			continue
		}
		want := map[string]bool{}
		for _, t := range m.types {
			want["GenSchema"+t], want["Copy"+t+"FromTerraform"], want["Copy"+t+"ToTerraform"] = true, true, true
		}
		var got []string
		for n := range texts {
			got = append(got, n)
		}
		sort.Strings(got)
		for n := range want {
			if _, ok := texts[n]; !ok {
				add("missing-function", "selected type lacks "+n)
			}
		}
		for _, n := range got {
			if !want[n] {
				add("extra-function", "function "+n+" is emitted although its type is not selected (or it is not one of the three)")
			}
		}
		r.Outcomes[fmt.Sprintf("selected=%d", len(m.types))]++
		for n, txt := range texts {
			if !want[n] {
				continue
			}
			key := fmt.Sprintf("%s/sort=%v", strings.TrimSuffix(m.world, "-reversed"), m.sort)

			if ref[key] == nil {
				ref[key] = map[string]string{}
			}
			if old, ok := ref[key][n]; !ok {
				ref[key][n] = txt
				refLabel[key+n] = e.Label
			} else if old != txt {
				add("function-text-depends-on-request", fmt.Sprintf("%s differs from its text in %s:\n%s", n, refLabel[key+n], firstDiffLine(old, txt)))
			}
		}
		if len(r.Samples) < 4 {
			r.Samples = append(r.Samples, map[string]interface{}{"request": e.Label, "functions": got, "sha": sha([]byte(src))})
		}
	}
	// every output compiles (self-contained functions)
	space.SortCases(compile)
	built := r.Mod.Generate(compile)
	if _, err := r.Mod.Build(nil); err != nil {
		r.HarnessErrs = append(r.HarnessErrs, err.Error())
	}
	for _, b := range built {
		r.Transitions++
		if b.CompileErr != "" {
			r.addFinding(&Finding{Property: r.ID, Kind: "does-not-compile", Shape: "selection", Label: b.Label, Msg: firstLines(b.CompileErr, 6), Count: 1, Witness: witnessOf(b)})
		} else if b.Skip != "" {
			r.Skipped = append(r.Skipped, b.Label+": "+b.Skip)
		} else {
			r.Outcomes["compiles"]++
		}
	}
	r.phase("compile")
	r.States, r.Nontrivial = len(execs), len(execs)
	return r.finish()
}

func firstDiffLine(a, b string) string {
	la, lb := strings.Split(a, "\n"), strings.Split(b, "\n")
	for i := 0; i < len(la) && i < len(lb); i++ {
		if la[i] != lb[i] {
			return fmt.Sprintf("line %d:\n   - %s\n   + %s", i+1, la[i], lb[i])
		}
	}
	return fmt.Sprintf("lengths differ: %d vs %d lines", len(la), len(lb))
}

var _ = scratch.TopFuncs
