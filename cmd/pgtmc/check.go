package main

import (
	"crypto/sha256"
	"encoding/json"
	"fmt"
	"os"
	"path/filepath"
	"regexp"
	"sort"
	"strings"
	"time"

	"verif/explorer"
	"verif/internal/gen"
	"verif/internal/scratch"
	"verif/internal/space"
)

// Finding is one violation after aggregation over cases.
type Finding struct {
	Property string      `json:"property"`
	Kind     string      `json:"kind"`
	Shape    string      `json:"shape"`
	Label    string      `json:"label"` // first case label it was seen on
	Root     string      `json:"root,omitempty"`
	Msg      string      `json:"msg"`
	Cases    int         `json:"cases"`
	Count    int         `json:"count"`
	Witness  interface{} `json:"witness,omitempty"`
	Known    string      `json:"known,omitempty"`
}

// Known is one entry of known_findings.json.
type Known struct {
	Property    string `json:"property"`
	Kind        string `json:"kind"`  // regular expression over the violation kind
	Shape       string `json:"shape"` // regular expression over the shape descriptor
	Description string `json:"description"`
	re, kre     *regexp.Regexp
}

type knownFile struct {
	Findings []*Known `json:"findings"`
	Fixed    []string `json:"fixed"`
}

func loadKnown() []*Known {
	b, err := os.ReadFile(filepath.Join(verifDir, "known_findings.json"))
	if err != nil {
		return nil
	}
	var kf knownFile
	if err := json.Unmarshal(b, &kf); err != nil {
		fmt.Fprintln(os.Stderr, "known_findings.json:", err)
		return nil
	}
	for _, k := range kf.Findings {
		k.re = regexp.MustCompile("^(?:" + k.Shape + ")$")
		k.kre = regexp.MustCompile("^(?:" + k.Kind + ")$")
	}
	return kf.Findings
}

func matchKnown(ks []*Known, f *Finding) *Known {
	for _, k := range ks {
		if k.Property == f.Property && k.kre.MatchString(f.Kind) && k.re.MatchString(f.Shape) {
			return k
		}
	}
	return nil
}

// Run is the state of one check execution.
type Run struct {
	ID    string
	Tier  string
	Seed  int
	Start time.Time
	Mod   *scratch.Module

	States, Transitions, Evals, Nontrivial int
	Outcomes                               map[string]int
	Samples                                []interface{}
	Findings                               map[string]*Finding
	Exhaustive                             bool
	Bounds                                 []string
	Notes                                  []string
	Skipped                                []string
	HarnessErrs                            []string
	Extra                                  map[string]interface{}
	Rule                                   string
	Assumptions                            []string
	// CompileFailKind, when set, makes a case of this check that does not compile a violation of
	// this property (C17: the hook names are part of the contract) instead of a skipped case.
	CompileFailKind string
	// OwnSkipHandling: the check classifies cases without output / that do not compile itself (C01, C13, C18)
	OwnSkipHandling bool
}

func newRun(id, tier string, seed int) *Run {
	return &Run{ID: id, Tier: tier, Seed: seed, Start: time.Now(), Outcomes: map[string]int{}, Findings: map[string]*Finding{}, Exhaustive: true, Extra: map[string]interface{}{}}
}

func (r *Run) addFinding(f *Finding) {
	key := f.Kind + "|" + f.Shape
	if old, ok := r.Findings[key]; ok {
		old.Cases++
		old.Count += f.Count
		return
	}
	if f.Cases == 0 {
		f.Cases = 1
	}
	r.Findings[key] = f
}

func (r *Run) note(format string, a ...interface{}) {
	r.Notes = append(r.Notes, fmt.Sprintf(format, a...))
}

// absorb merges harness result lines.
func (r *Run) absorb(lines [][]byte) []*explorer.Result {
	var out []*explorer.Result
	bounds := map[string]bool{}
	for _, l := range lines {
		var res explorer.Result
		if err := json.Unmarshal(l, &res); err != nil {
			r.HarnessErrs = append(r.HarnessErrs, "undecodable harness line: "+err.Error())
			continue
		}
		out = append(out, &res)
		r.States += res.States
		r.Transitions += res.Transitions
		r.Evals += res.Evals
		r.Nontrivial += res.Nontrivial
		for k, v := range res.Outcomes {
			r.Outcomes[k] += v
		}
		if res.Capped {
			r.Exhaustive = false
			r.note("%s: execution budget reached (%s)", res.Label, res.Bound)
		}
		if res.Bound != "" {
			bounds[res.Bound] = true
		}
		if res.HarnessErr != "" {
			r.HarnessErrs = append(r.HarnessErrs, res.Label+": "+res.HarnessErr)
		}
		if len(r.Samples) < 6 && len(res.Samples) > 0 {
			r.Samples = append(r.Samples, map[string]interface{}{"case": res.Label, "root": res.Root, "sample": res.Samples[0]})
		}
		for _, v := range res.Violations {
			r.addFinding(&Finding{Property: r.ID, Kind: v.Kind, Shape: v.Shape, Label: res.Label, Root: res.Root, Msg: v.Msg, Count: v.Count, Witness: v.Witness})
		}
	}
	for b := range bounds {
		r.Bounds = append(r.Bounds, b)
	}
	sort.Strings(r.Bounds)
	return out
}

// finish writes evidence and replays, prints the verdict lines and returns the exit code.
func (r *Run) finish() int {
	if replayMode != nil {
		for _, f := range r.Findings {
			if f.Kind == replayMode.kind && f.Shape == replayMode.shape {
				replayMode.hit = true
				fmt.Printf("replayed violation: %s\n", firstLines(f.Msg, 8))
			}
		}
		return 0
	}
	known := loadKnown()
	var keys []string
	for k := range r.Findings {
		keys = append(keys, k)
	}
	sort.Strings(keys)
	exit := 0
	nviol := 0
	var knownLines, violLines []string
	replayDir := filepath.Join(verifDir, "replays", r.ID)
	os.RemoveAll(replayDir) // replay files describe the violations of this run only
	for _, k := range keys {
		f := r.Findings[k]
		if kn := matchKnown(known, f); kn != nil {
			f.Known = kn.Description
			knownLines = append(knownLines, fmt.Sprintf("KNOWN-FINDING: property=%s kind=%s shape=%s (%d cases, first %s): %s", r.ID, f.Kind, f.Shape, f.Cases, f.Label, kn.Description))
			continue
		}
		nviol++
		exit = 1
		os.MkdirAll(replayDir, 0o755)
		h := sha256.Sum256([]byte(f.Kind + "|" + f.Shape + "|" + f.Label))
		path := filepath.Join(replayDir, fmt.Sprintf("%x.json", h[:6]))
		b, _ := json.MarshalIndent(map[string]interface{}{
			"property": r.ID, "kind": f.Kind, "shape": f.Shape, "label": f.Label, "root": f.Root, "msg": f.Msg, "witness": f.Witness, "tier": r.Tier,
		}, "", " ")
		os.WriteFile(path, b, 0o644)
		violLines = append(violLines, fmt.Sprintf("VIOLATION property=%s replay=%s", r.ID, path))
		fmt.Printf("violation: kind=%s shape=%s case=%s: %s\n", f.Kind, f.Shape, f.Label, firstLines(f.Msg, 6))
	}
	if len(r.HarnessErrs) > 0 {
		r.Exhaustive = false
		for _, e := range r.HarnessErrs {
			fmt.Println("harness-error:", firstLines(e, 8))
		}
	}
	// evidence
	if len(r.Samples) == 0 {
		r.Samples = append(r.Samples, "no executions")
	}
	nz := func(l []string) []string {
		if l == nil {
			return []string{}
		}
		return l
	}
	r.Notes, r.Skipped, r.HarnessErrs, r.Bounds = nz(r.Notes), nz(r.Skipped), nz(r.HarnessErrs), nz(r.Bounds)
	cov := map[string]interface{}{
		"states":                        max1(r.States),
		"transitions":                   max1(r.Transitions),
		"traces_validated_against_impl": r.Transitions,
		"samples":                       r.Samples,
		"evaluations":                   max1(r.Evals),
		"distinct_nontrivial":           r.Nontrivial,
		"rule":                          r.Rule,
		"exhaustive":                    r.Exhaustive,
		"bounds":                        r.Bounds,
		"outcomes":                      r.Outcomes,
		"notes":                         r.Notes,
		"skipped_cases":                 r.Skipped,
		"harness_errors":                r.HarnessErrs,
		"known_findings_seen":           len(knownLines),
	}
	for k, v := range r.Extra {
		cov[k] = v
	}
	ev := map[string]interface{}{
		"property_id": r.ID,
		"tier":        r.Tier,
		"seed":        r.Seed,
		"level":       "model_checking",
		"coverage":    cov,
		"assumptions": r.Assumptions,
		"wall_s":      time.Since(r.Start).Seconds(),
		"violations":  nviol,
	}
	os.MkdirAll(filepath.Join(verifDir, "evidence"), 0o755)
	b, _ := json.MarshalIndent(ev, "", " ")
	os.WriteFile(filepath.Join(verifDir, "evidence", r.ID+".json"), b, 0o644)
	for _, l := range knownLines {
		fmt.Println(l)
	}
	for _, l := range violLines {
		fmt.Println(l)
	}
	if len(r.HarnessErrs) > 0 && exit == 0 {
		// a harness error is not a verdict on the property; it is reported, exhaustive=false
		fmt.Printf("check %s: harness errors occurred; coverage is partial\n", r.ID)
	}
	fmt.Printf("check %s tier=%s: states=%d transitions=%d evaluations=%d violations=%d known=%d exhaustive=%v wall=%.1fs\n",
		r.ID, r.Tier, r.States, r.Transitions, r.Evals, nviol, len(knownLines), r.Exhaustive, time.Since(r.Start).Seconds())
	return exit
}

func max1(n int) int {
	if n < 1 {
		return 1
	}
	return n
}

func firstLines(s string, n int) string {
	ls := strings.Split(s, "\n")
	if len(ls) > n {
		ls = append(ls[:n], "...")
	}
	out := strings.Join(ls, "\n")
	if len(out) > 1500 {
		out = out[:1500] + "..."
	}
	return out
}

// prepare creates the scratch module and builds the tools.
func (r *Run) prepare() error {
	m, err := scratch.New(verifDir)
	if err != nil {
		return err
	}
	r.Mod = m
	t, err := gen.Prepare(m.Root, verifDir, m.Cache())
	if err != nil {
		return err
	}
	m.Tools = t
	r.phase("tools")
	return nil
}

// generate produces the cases, records the ones that cannot be used, builds the harness.
func (r *Run) generate(cases []*space.Case) ([]*scratch.Built, string, error) {
	if replayMode != nil && replayMode.label != "" {
		var only []*space.Case
		for _, c := range cases {
			if c.Label == replayMode.label || (c.Group != "" && strings.HasPrefix(replayMode.label, c.Group)) {
				only = append(only, c)
			}
		}
		if len(only) > 0 {
			cases = only
		}
	}
	space.SortCases(cases)
	built := r.Mod.Generate(cases)
	for _, b := range built {
		if b.Skip != "" {
			r.Skipped = append(r.Skipped, b.Label+": "+b.Skip)
			if b.Gogo != nil && b.Gogo.ExitCode == 0 && b.TF != nil && !r.OwnSkipHandling {
				// protoc-gen-gogo accepts the descriptor but the plugin produced no file: the converters this
				// check is about do not exist for the case
				r.addFinding(&Finding{Property: r.ID, Kind: "case-not-generated", Shape: caseShape(b.Case), Label: b.Label, Msg: "the plugin produced no file for this case, so the property cannot hold for it: " + lastLines(b.TF.Stderr, 3), Count: 1, Witness: witnessOf(b)})
			}
		}
	}
	bin, err := r.Mod.Build(nil)
	if err != nil {
		return built, "", err
	}
	for _, b := range built {
		if b.CompileErr != "" {
			if r.CompileFailKind != "" {
				r.addFinding(&Finding{Property: r.ID, Kind: r.CompileFailKind, Shape: caseShape(b.Case), Label: b.Label, Msg: "generated code does not compile against the documented hook names / types:\n" + firstLines(b.CompileErr, 6), Count: 1, Witness: witnessOf(b)})
				continue
			}
			r.Skipped = append(r.Skipped, b.Label+": generated code does not compile")
			if !r.OwnSkipHandling {
				r.addFinding(&Finding{Property: r.ID, Kind: "case-does-not-compile", Shape: caseShape(b.Case), Label: b.Label, Msg: "the generated code of this case does not compile, so the property cannot hold for it (C01 reports the compile error as such):\n" + firstLines(b.CompileErr, 6), Count: 1, Witness: witnessOf(b)})
			}
		}
	}
	return built, bin, nil
}

// kCheck is the generic flow of the converter-explorer (K) properties.
func kCheck(r *Run, cases []*space.Case, procs string, timeoutSec int) int {
	if err := r.prepare(); err != nil {
		fmt.Fprintln(os.Stderr, err)
		return 2
	}
	defer r.Mod.Cleanup()
	_, bin, err := r.generate(cases)
	if err != nil {
		fmt.Fprintln(os.Stderr, err)
		return 2
	}
	r.phase("generate+build")
	if r.Tier == "thorough" {
		timeoutSec = 4 * 3600 // a worker that is still exploring is not an error
	}
	lines, errs := r.Mod.RunHarness(bin, 16, []string{"--prop", procs, "--tier", r.Tier, "--seed", fmt.Sprint(r.Seed)}, timeoutSec)
	r.HarnessErrs = append(r.HarnessErrs, errs...)
	r.phase("explore")
	res := r.absorb(lines)
	sort.Slice(res, func(i, j int) bool { return res[i].Millis > res[j].Millis })
	for i := 0; i < len(res) && i < 3; i++ {
		fmt.Printf("slowest: %s %dms states=%d\n", res[i].Label, res[i].Millis, res[i].States)
	}
	return r.finish()
}

func (r *Run) phase(name string) {
	fmt.Printf("phase %s done at %.1fs\n", name, time.Since(r.Start).Seconds())
}
