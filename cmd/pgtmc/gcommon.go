package main

import (
	"crypto/sha256"
	"fmt"
	"go/ast"
	"go/parser"
	"go/token"
	"os"
	"path/filepath"
	"sort"
	"strings"
	"sync"

	d "github.com/gogo/protobuf/protoc-gen-gogo/descriptor"

	"verif/internal/dsl"
	"verif/internal/gen"
)

// funcTexts returns the source text (doc comment included) of every top-level function of src.
func funcTexts(src string) (map[string]string, error) {
	fset := token.NewFileSet()
	af, err := parser.ParseFile(fset, "x.go", src, parser.ParseComments)
	if err != nil {
		return nil, err
	}
	out := map[string]string{}
	for _, decl := range af.Decls {
		fd, ok := decl.(*ast.FuncDecl)
		if !ok || fd.Recv != nil {
			continue
		}
		start := fd.Pos()
		if fd.Doc != nil {
			start = fd.Doc.Pos()
		}
		out[fd.Name.Name] = src[fset.Position(start).Offset:fset.Position(fd.End()).Offset]
	}
	return out, nil
}

func sha(s []byte) string { return fmt.Sprintf("%x", sha256.Sum256(s))[:16] }

// gExec is one plugin execution of a G check.
type gExec struct {
	Label   string
	FD      *d.FileDescriptorProto
	Extra   []*d.FileDescriptorProto
	YAML    string // "" = no config file
	Param   string // additional parameters (without config=)
	NoCfg   bool
	CfgPath string // override of the config path given to the plugin
	Env     []string
	Res     *gen.Result
}

// runAll executes the plugin for every gExec in parallel; each gets its own config file.
func (r *Run) runAll(execs []*gExec, bin string) {
	var wg sync.WaitGroup
	sem := make(chan struct{}, 16)
	dir := filepath.Join(r.Mod.Root, "g")
	os.MkdirAll(dir, 0o755)
	for i, e := range execs {
		wg.Add(1)
		go func(i int, e *gExec) {
			defer wg.Done()
			sem <- struct{}{}
			defer func() { <-sem }()
			param := e.Param
			if !e.NoCfg {
				p := e.CfgPath
				if p == "" {
					p = filepath.Join(dir, fmt.Sprintf("cfg%05d.yaml", i))
					os.WriteFile(p, []byte(e.YAML), 0o644)
				}
				if param != "" {
					param = "config=" + p + "," + param
				} else {
					param = "config=" + p
				}
			}
			e.Res = gen.Run(bin, dsl.RequestFD(e.FD, param, e.Extra...), r.Mod.WorkDir(), e.Env...)
		}(i, e)
	}
	wg.Wait()
	r.Transitions += len(execs)
	r.Evals += len(execs)
}

func sortedKeys(m map[string]string) []string {
	ks := make([]string, 0, len(m))
	for k := range m {
		ks = append(ks, k)
	}
	sort.Strings(ks)
	return ks
}

func hasWarningFor(stderr, name string) bool {
	for _, l := range strings.Split(stderr, "\n") {
		if (strings.Contains(l, "level=warning") || strings.Contains(l, "level=error") || strings.Contains(l, "WARN")) && strings.Contains(l, name) {
			return true
		}
	}
	return false
}
