package main

import (
	"fmt"
	"strings"

	"verif/internal/dsl"
	"verif/internal/space"
)

var commentForms = []string{
	"",
	" one line",
	" first line\n   indented second line\n third",
	" crlf one\r\n crlf two\r",
	" paragraph one\n\n paragraph two",
	"   leading and trailing blanks   ",
	"\ttabbed\tcomment ",
	" says \"quoted\" and \\backslash\\ and `backtick` and 100%d percent",
	" names the package manager used on the node, the import path and the func to call; type of package",
	" unicode é→ and a very long line " + "word word word word word word word word word word word word word word word word word word word word",
}

type c10Base struct {
	name string
	mk   func() (*dsl.File, *dsl.Config)
}

func c10Bases() []c10Base {
	return []c10Base{
		{"sink", func() (*dsl.File, *dsl.Config) { c := space.F4()[0]; return c.File, c.Cfg }},
		{"f5", func() (*dsl.File, *dsl.Config) { c := space.F5()[0]; return c.File, c.Cfg }},
		{"oneofs", func() (*dsl.File, *dsl.Config) { c := space.F4()[1]; return c.File, c.Cfg }},
		{"empties", func() (*dsl.File, *dsl.Config) {
			root := &dsl.Message{Name: "Root", Fields: []*dsl.Field{
				{Name: "E", Num: 1, T: dsl.Msg, Ref: "Empty"},
				{Name: "NonNull", Num: 2, T: dsl.Msg, Ref: "Empty", Nullable: dsl.B(false)},
				{Name: "S", Num: 3, T: dsl.String},
				{Name: "Pick", Num: 4, T: dsl.Msg, Ref: "Empty", Oneof: "Choice"},
				{Name: "Other", Num: 5, T: dsl.String, Oneof: "Choice"},
			}, Oneofs: []string{"Choice"}}
			f := space.Close(&dsl.File{GettersOff: true, Messages: []*dsl.Message{root}})
			return f, space.BaseConfig("Root")
		}},
		{"customs", func() (*dsl.File, *dsl.Config) {
			// custom-type attributes (by proto option and by custom_types), singular, repeated, nested and
			// embedded: the attribute the GenSchema hook is handed carries the configured flags and lists
			part := &dsl.Message{Name: "Part", Fields: []*dsl.Field{
				{Name: "Mark", Num: 1, T: dsl.Bool, CustomType: "BoolCustom", Comment: " Mark of the part"},
				{Name: "Plain", Num: 2, T: dsl.String},
				{Name: "Cfg", Num: 3, T: dsl.String},
			}}
			root := &dsl.Message{Name: "Root", Fields: []*dsl.Field{
				{Name: "Name", Num: 1, T: dsl.String, Comment: " Name of the root"},
				{Name: "Opt", Num: 2, T: dsl.Bool, CustomType: "BoolCustom", Comment: " Opt is a custom\n   boolean"},
				{Name: "Many", Num: 3, T: dsl.Bool, CustomType: "BoolCustom", Card: dsl.Repeated},
				{Name: "Token", Num: 4, T: dsl.String, Comment: " Token made custom by the configuration"},
				{Name: "Part", Num: 5, T: dsl.Msg, Ref: "Part"},
				{Name: "Parts", Num: 6, T: dsl.Msg, Ref: "Part", Card: dsl.Repeated},
				{Name: "Limits", Num: 7, T: dsl.Msg, Ref: "Limits", Embed: true},
			}}
			f := space.Close(&dsl.File{GettersOff: true, Messages: []*dsl.Message{root, part}})
			c := space.BaseConfig("Root")
			c.CustomTypes = map[string]string{"Root.Token": "StrCustom", "Part.Cfg": "StrCustom"}
			return f, c
		}},
	}
}

func walkFields(f *dsl.File, fn func(m *dsl.Message, fl *dsl.Field, idx int)) {
	idx := 0
	var walk func(ms []*dsl.Message)
	walk = func(ms []*dsl.Message) {
		for _, m := range ms {
			for _, fl := range m.Fields {
				fn(m, fl, idx)
				idx++
			}
			walk(m.Nested)
		}
	}
	walk(f.Messages)
}

func c10Cases(tier string) []*space.Case {
	var out []*space.Case
	add := func(base, variant string, f *dsl.File, c *dsl.Config) {
		out = append(out, &space.Case{Label: fmt.Sprintf("C10/%s/%s", base, variant), Family: "C10", Tags: map[string]string{"class": "config", "card": variant, "vt": base, "pos": "all"}, File: f, Cfg: c})
	}
	v := func(i int) string { return fmt.Sprintf("%s.V(%d)", dsl.TFX, i) }
	pm := func(i int) string { return fmt.Sprintf("%s.PM(%d)", dsl.TFX, i) }
	for _, b := range c10Bases() {
		f0, c0 := b.mk()
		paths := space.AllPaths(f0, c0)
		tkeys := space.AllTypeKeys(f0, c0)
		// A. flag subsets, rotating over the fields, both key forms
		for shift := 0; shift < 8; shift++ {
			for form, keys := range map[string][]string{"path": paths, "typekey": tkeys} {
				f, c := b.mk()
				for i, k := range keys {
					s := (i + shift) % 8
					if s&1 != 0 {
						c.Required = append(c.Required, k)
					}
					if s&2 != 0 {
						c.Computed = append(c.Computed, k)
					}
					if s&4 != 0 {
						c.Sensitive = append(c.Sensitive, k)
					}
				}
				add(b.name, fmt.Sprintf("flags/%s/shift%d", form, shift), f, c)
			}
			if tier != "thorough" && shift >= 3 && b.name != "f5" {
				break
			}
		}
		// B. validator / plan-modifier lists of length 0-2 and the UseStateForUnknown default
		for shift := 0; shift < 3; shift++ {
			for _, usu := range []bool{false, true} {
				for form, keys := range map[string][]string{"path": paths, "typekey": tkeys} {
					f, c := b.mk()
					c.UseStateForUnknown = usu
					c.Validators = map[string][]string{}
					c.PlanModifiers = map[string][]string{}
					for i, k := range keys {
						if i%2 == 0 {
							c.Computed = append(c.Computed, k)
						}
						if i%4 == 0 || i%4 == 3 {
							c.Required = append(c.Required, k)
						}
						if i%3 == 0 {
							c.Sensitive = append(c.Sensitive, k)
						}
						switch (i + shift) % 3 {
						case 1:
							c.Validators[k] = []string{v(i)}
						case 2:
							c.Validators[k] = []string{v(i + 100), v(i)}
						}
						switch (i/2 + 2*shift) % 3 {
						case 1:
							c.PlanModifiers[k] = []string{pm(i)}
						case 2:
							c.PlanModifiers[k] = []string{pm(i + 100), pm(i)}
						}
					}
					add(b.name, fmt.Sprintf("lists/%s/shift%d/usu=%v", form, shift, usu), f, c)
				}
			}
		}
		// B2. spellings of validators / plan modifiers: qualified call, call with a string argument holding
		// dots, brackets, stars, quotes, commas and parentheses, a variable and a function of the target
		// package itself (unqualified, as in the README)
		{
			vforms := []string{v(1), `verif/tfx.VS("a.b")`, `verif/tfx.VS("^[a-z]*$")`, "LocalValidator", "LocalV(5)", `verif/tfx.VS("say \"hi\", (twice)")`, `verif/tfx.VS("[]*string")`}
			pforms := []string{pm(1), `verif/tfx.PMS("x.y[0]")`, "LocalModifier", "LocalPM(6)", `verif/tfx.PMS("*")`}
			for form, keys := range map[string][]string{"path": paths, "typekey": tkeys} {
				f, c := b.mk()
				c.Validators = map[string][]string{}
				c.PlanModifiers = map[string][]string{}
				for i, k := range keys {
					c.Validators[k] = []string{vforms[i%len(vforms)], vforms[(i+3)%len(vforms)]}
					c.PlanModifiers[k] = []string{pforms[i%len(pforms)]}
				}
				add(b.name, "forms/"+form, f, c)
			}
		}
		// C. injected fields on the root and on nested paths
		{
			st := "github.com/hashicorp/terraform-plugin-framework/types.StringType"
			it := "github.com/hashicorp/terraform-plugin-framework/types.Int64Type"
			combos := []dsl.Injected{
				{Name: "id", Type: st, Computed: true},
				{Name: "inj_req", Type: it, Required: true},
				{Name: "inj_opt", Type: st, Optional: true, Validators: []string{v(7)}},
				{Name: "inj_oc", Type: st, Optional: true, Computed: true, PlanModifiers: []string{pm(7), "github.com/hashicorp/terraform-plugin-framework/tfsdk.UseStateForUnknown()"}},
			}
			f, c := b.mk()
			c.Injected = map[string][]dsl.Injected{}
			for _, r := range c.Types {
				c.Injected[r] = combos
			}
			add(b.name, "injected/roots", f, c)
			// nested paths: every message-typed attribute path
			f, c = b.mk()
			c.Injected = map[string][]dsl.Injected{}
			n := 0
			for _, r := range c.Types {
				if s, err := dsl.BuildSpec(f, c, r); err == nil {
					for _, a := range s.Attrs {
						if a.Msg != nil && len(a.Embed) == 0 {
							inj := combos[n%len(combos)]
							if inj.Name == "id" {
								// (a nested message may have an attribute "id" of its own)
								inj.Name = "inj_id"
							}
							c.Injected[a.Path] = []dsl.Injected{inj}
							n++
						}
					}
				}
			}
			if n > 0 {
				add(b.name, "injected/nested", f, c)
			}
		}
		// D. comment forms rotating over the field positions
		for shift := 0; shift < len(commentForms); shift++ {
			f, c := b.mk()
			walkFields(f, func(m *dsl.Message, fl *dsl.Field, idx int) {
				fl.Comment = commentForms[(idx+shift)%len(commentForms)]
			})
			add(b.name, fmt.Sprintf("comments/shift%d", shift), f, c)
			if shift < 2 || tier == "thorough" {
				// the same with every third field excluded (by path or by Message.Field): the comments of the
				// remaining fields must stay their own
				f2, c2 := b.mk()
				walkFields(f2, func(m *dsl.Message, fl *dsl.Field, idx int) {
					fl.Comment = commentForms[(idx+shift)%len(commentForms)]
				})
				for i, k := range tkeys {
					if i%3 == shift%3 {
						c2.Exclude = append(c2.Exclude, k)
					}
				}
				add(b.name, fmt.Sprintf("comments+exclusions/shift%d", shift), f2, c2)
			}
		}
	}
	// E. the same with the non-root messages declared in an imported file of the same package
	// (comment locations are relative to the declaring file)
	for _, c := range append([]*space.Case{}, out...) {
		if strings.HasPrefix(c.Tags["card"], "comments/shift") || c.Tags["card"] == "flags/path/shift0" || c.Tags["card"] == "injected/nested" {
			if tier != "thorough" && strings.HasPrefix(c.Tags["card"], "comments/shift") && !strings.HasSuffix(c.Tags["card"], "shift0") && !strings.HasSuffix(c.Tags["card"], "shift1") {
				continue
			}
			if sc := space.Split(c); sc != nil {
				sc.Tags["card"] += "/split-files"
				out = append(out, sc)
			}
		}
	}
	return out
}
