package main

import (
	"bytes"
	"fmt"
	"os"
	"path/filepath"
	"strings"

	"verif/internal/dsl"
	"verif/internal/space"
)

// dualOption is one option expressible on both channels.
type dualOption struct {
	name      string   // YAML key
	spellings []string // documented parameter spellings (README / config.go)
	yamlKey   string
	value     func(c *dsl.Config) string // parameter value of the logical configuration
	decoy     func(c *dsl.Config)        // makes the YAML carry a different value that must lose
	listLike  bool
}

// c16Second is a second logical configuration: sort off (so that an explicit
// "sort=false" parameter has to beat a YAML "sort: true"), other lists.
func c16Second() *dsl.Config {
	_, c := c16Base()
	c.Types = []string{"Gamma", "Delta", "Alpha"}
	c.Sort = false
	c.Exclude = []string{"Gamma.KT"}
	c.Computed = []string{"Alpha.Name", "Shared.Label", "Gamma.Deep.Inner.Tiny.N"}
	// a YAML-only switch whose effect depends on a list that may arrive by either channel
	c.UseStateForUnknown = true
	c.PlanModifiers = map[string][]string{"Shared.Label": {dsl.TFX + ".PM(61)"}}
	c.Required = []string{"Shared.ID", "Delta.Only"}
	c.Sensitive = []string{"Tiny.On"}
	c.DefaultPkg = "example.com/other/types"
	c.TargetPkg = "provider"
	return c
}

func c16Base() (*dsl.File, *dsl.Config) {
	f := space.F5File()
	f.Pkg, f.Name = "f5", "f5.proto"
	for _, m := range f.Messages {
		if m.Name == "Alpha" {
			m.Fields = append(m.Fields, &dsl.Field{Name: "Ttl", Num: 9, T: dsl.Int64, CastType: "Duration"})
		}
	}
	c := space.BaseConfig("Alpha", "Beta", "Gamma")
	c.Exclude = []string{"Alpha.Name", "Shared.Label"}
	c.Computed = []string{"Beta.Count", "Shared.ID", "Gamma.KT"}
	c.Required = []string{"Alpha.Meta"}
	c.Sensitive = []string{"Shared.ID", "Beta.ByKey"}
	c.DefaultPkg = "example.com/acme/structs"
	c.TargetPkg = "tfschema"
	c.Sort = true
	return f, c
}

func dualOptions() []dualOption {
	join := func(l []string) string { return strings.Join(l, "+") }
	return []dualOption{
		{name: "types", spellings: []string{"types"}, value: func(c *dsl.Config) string { return join(c.Types) }, decoy: func(c *dsl.Config) { c.Types = []string{"Delta"} }, listLike: true},
		{name: "exclude_fields", spellings: []string{"exclude_fields"}, value: func(c *dsl.Config) string { return join(c.Exclude) }, decoy: func(c *dsl.Config) { c.Exclude = []string{"Beta.Count"} }, listLike: true},
		{name: "computed_fields", spellings: []string{"computed_fields", "computed"}, value: func(c *dsl.Config) string { return join(c.Computed) }, decoy: func(c *dsl.Config) { c.Computed = []string{"Alpha.Meta"} }, listLike: true},
		{name: "required_fields", spellings: []string{"required_fields", "required"}, value: func(c *dsl.Config) string { return join(c.Required) }, decoy: func(c *dsl.Config) { c.Required = []string{"Beta.Count"} }, listLike: true},
		{name: "sensitive_fields", spellings: []string{"sensitive_fields", "sensitive"}, value: func(c *dsl.Config) string { return join(c.Sensitive) }, decoy: func(c *dsl.Config) { c.Sensitive = []string{"Alpha.Meta"} }, listLike: true},
		{name: "default_package_name", spellings: []string{"default_package_name"}, value: func(c *dsl.Config) string { return c.DefaultPkg }, decoy: func(c *dsl.Config) { c.DefaultPkg = "example.com/decoy/pkg" }},
		{name: "target_package_name", spellings: []string{"target_package_name"}, value: func(c *dsl.Config) string { return c.TargetPkg }, decoy: func(c *dsl.Config) { c.TargetPkg = "decoypkg" }},
		{name: "duration_custom_type", spellings: []string{"duration_custom_type", "custom_duration"}, value: func(c *dsl.Config) string { return c.DurationCustomType }, decoy: func(c *dsl.Config) { c.DurationCustomType = "Decoy" }},
		{name: "sort", spellings: []string{"sort"}, value: func(c *dsl.Config) string { return fmt.Sprint(c.Sort) }, decoy: func(c *dsl.Config) { c.Sort = !c.Sort }},
	}
}

// channel assignment values
const (
	chYAML = iota
	chParam
	chBothEqual
	chBothConflict
)

func checkC16(r *Run) int {
	r.Rule = "one plugin execution per channel assignment (per dual-channel option: YAML / parameter / both-equal / both-conflicting with a YAML decoy) within k deviations of all-YAML and of all-parameter; oracle: response bytes equal to the all-YAML execution; plus negative cases that must fail without producing a file"
	if err := r.prepare(); err != nil {
		fmt.Fprintln(os.Stderr, err)
		return 2
	}
	defer r.Mod.Cleanup()
	file, cfg1 := c16Base()
	fd := file.Descriptor()
	opts := dualOptions()
	cfg := cfg1
	bin := r.Mod.Tools.Plugin
	add := func(kind, shape, label, msg string, w interface{}) {
		r.addFinding(&Finding{Property: r.ID, Kind: kind, Shape: shape, Label: label, Msg: msg, Count: 1, Witness: w})
	}

	mkExec := func(assign []int, spelling []string, label string) *gExec {
		only := map[string]bool{}
		yc := cfg.Clone()
		var params []string
		// non-dual options always travel in YAML
		for _, k := range []string{"time_type", "duration_type", "suffixes", "use_state_for_unknown_by_default", "plan_modifiers"} {
			only[k] = true
		}
		for i, o := range opts {
			val := o.value(cfg)
			switch assign[i] {
			case chYAML:
				only[o.name] = true
			case chParam:
				params = append(params, spelling[i]+"="+val)
			case chBothEqual:
				only[o.name] = true
				params = append(params, spelling[i]+"="+val)
			case chBothConflict:
				only[o.name] = true
				o.decoy(yc)
				params = append(params, spelling[i]+"="+val)
			}
		}
		return &gExec{Label: label, FD: fd, YAML: yc.YAML(nil, only), Param: strings.Join(params, ",")}
	}

	// 1. reference and spelling probe
	allYAML := make([]int, len(opts))
	spelling := make([]string, len(opts))
	for i, o := range opts {
		spelling[i] = o.spellings[0]
	}
	ref := mkExec(allYAML, spelling, "all-YAML")
	var probes []*gExec
	type pm struct{ opt, sp int }
	var pmeta []pm
	for i, o := range opts {
		for si, sp := range o.spellings {
			a := append([]int{}, allYAML...)
			a[i] = chParam
			s := append([]string{}, spelling...)
			s[i] = sp
			probes = append(probes, mkExec(a, s, fmt.Sprintf("probe %s via parameter %q", o.name, sp)))
			pmeta = append(pmeta, pm{i, si})
		}
	}
	r.runAll(append([]*gExec{ref}, probes...), bin)
	if ref.Res.ExitCode != 0 || ref.Res.Content() == "" {
		r.HarnessErrs = append(r.HarnessErrs, "reference execution failed: "+lastLines(ref.Res.Stderr, 3))
		return r.finish()
	}
	refBytes := ref.Res.Stdout
	accepted := map[int]string{}
	allAccepted := map[int][]string{}
	spellReport := map[string]interface{}{}
	for pi, p := range probes {
		m := pmeta[pi]
		ok := p.Res.ExitCode == 0 && bytes.Equal(p.Res.Stdout, refBytes)
		spellReport[opts[m.opt].name+"/"+opts[m.opt].spellings[m.sp]] = ok
		if ok {
			allAccepted[m.opt] = append(allAccepted[m.opt], opts[m.opt].spellings[m.sp])
			if _, have := accepted[m.opt]; !have {
				accepted[m.opt] = opts[m.opt].spellings[m.sp]
			}
		}
	}
	r.Extra["parameter_spellings_accepted"] = spellReport
	usable := []int{}
	for i, o := range opts {
		if sp, ok := accepted[i]; ok {
			spelling[i] = sp
			usable = append(usable, i)
		} else {
			add("option-not-deliverable-as-parameter", "option:"+o.name, "probe "+o.name, fmt.Sprintf("no documented parameter spelling %v delivers option %s: the output differs from the all-YAML execution", o.spellings, o.name), map[string]interface{}{"kind": "request", "option": o.name, "spellings": o.spellings})
		}
	}
	// 2. channel assignments within k deviations of all-YAML and of all-parameter
	k := 2
	logical := []*dsl.Config{cfg1, c16Second()}
	var refs []*gExec
	var refByExec = map[*gExec]*gExec{}
	if r.Tier == "thorough" {
		k = 4
	}
	var execs []*gExec
	// every accepted spelling of an option is explored: the first accepted one everywhere, each
	// further one in its own spelling vector (executions that come out identical are run once)
	spellVecs := [][]string{spelling}
	for _, i := range usable {
		for _, sp := range allAccepted[i][1:] {
			v := append([]string{}, spelling...)
			v[i] = sp
			spellVecs = append(spellVecs, v)
		}
	}
	r.Extra["spelling_vectors"] = len(spellVecs)
	for li, lc := range logical {
		cfg = lc
		lref := mkExec(allYAML, spelling, fmt.Sprintf("L%d all-YAML", li))
		refs = append(refs, lref)
		seenExec := map[string]bool{}
		for svi, spelling := range spellVecs {
			seen := map[string]bool{}
			for _, baseVal := range []int{chYAML, chParam} {
				base := make([]int, len(opts))
				for i := range base {
					base[i] = chYAML
				}
				for _, i := range usable {
					base[i] = baseVal
				}
				var rec func(start, dev int, cur []int)
				rec = func(start, dev int, cur []int) {
					key := fmt.Sprint(cur)
					if !seen[key] {
						seen[key] = true
						e := mkExec(cur, spelling, fmt.Sprintf("L%d assign=%s", li, key))
						if svi > 0 {
							e.Label += fmt.Sprintf(" spellings=%d", svi)
						}
						if ek := e.YAML + "\x00" + e.Param; !seenExec[ek] {
							seenExec[ek] = true
							refByExec[e] = lref
							execs = append(execs, e)
						}
					}
					if dev == k {
						return
					}
					for ui := start; ui < len(usable); ui++ {
						i := usable[ui]
						for v := chYAML; v <= chBothConflict; v++ {
							if v == base[i] {
								continue
							}
							n := append([]int{}, cur...)
							n[i] = v
							rec(ui+1, dev+1, n)
						}
					}
				}
				rec(0, 0, base)
			}
		}
	}
	cfg = cfg1
	// 3. '+' separated lists with 1-3 entries, both channels
	for n := 1; n <= 3; n++ {
		c2 := cfg.Clone()
		c2.Computed = []string{"Beta.Count", "Shared.ID", "Gamma.KT"}[:n]
		for _, via := range []int{chYAML, chParam} {
			only := map[string]bool{}
			var params []string
			for _, o := range opts {
				only[o.name] = true
			}
			for _, k := range []string{"time_type", "duration_type", "suffixes"} {
				only[k] = true
			}
			if via == chParam {
				if sp, ok := accepted[2]; ok {
					delete(only, "computed_fields")
					params = append(params, sp+"="+strings.Join(c2.Computed, "+"))
				}
			}
			execs = append(execs, &gExec{Label: fmt.Sprintf("list n=%d via=%d", n, via), FD: fd, YAML: c2.YAML(nil, only), Param: strings.Join(params, ",")})
		}
	}
	nAssign := len(execs) - 6
	r.runAll(append(append([]*gExec{}, refs...), execs...), bin)
	r.phase("channel assignments")
	for i, e := range execs[:nAssign] {
		ref := refByExec[e]
		refBytes := ref.Res.Stdout
		if e.Res.ExitCode != 0 || !bytes.Equal(e.Res.Stdout, refBytes) {
			r.Outcomes["differs"]++
			diff := "exit status " + fmt.Sprint(e.Res.ExitCode)
			if e.Res.ExitCode == 0 {
				diff = firstDiffLine(ref.Res.Content(), e.Res.Content())
			}
			// name the options whose channel differs from all-YAML
			var devs []string
			var a []int
			_ = a
			lab := e.Label[strings.Index(e.Label, "assign=")+len("assign="):]
			if j := strings.Index(lab, "]"); j >= 0 {
				lab = lab[:j]
			}
			lab = strings.Trim(lab, "[]")
			for oi, v := range strings.Fields(lab) {
				if v != "0" {
					devs = append(devs, opts[oi].name+"="+map[string]string{"1": "param", "2": "both-equal", "3": "both-conflicting"}[v])
				}
			}
			shape := e.Label[:2] + ":" + strings.Join(devs, ",")
			if len(devs) > 2 {
				shape = fmt.Sprintf("%d options off-YAML", len(devs))
			}
			add("channels-not-equivalent", shape, e.Label, "output differs from the all-YAML execution for "+strings.Join(devs, ", ")+": "+diff, map[string]interface{}{"kind": "request", "yaml": e.YAML, "param": e.Param})
		} else {
			r.Outcomes["equal"]++
		}
		if i < 3 {
			r.Samples = append(r.Samples, map[string]interface{}{"assignment": e.Label, "param": e.Param, "sha": sha(e.Res.Stdout)})
		}
	}
	for j := 0; j < 6; j += 2 {
		a, b := execs[nAssign+j], execs[nAssign+j+1]
		if a.Res.ExitCode != 0 || !bytes.Equal(a.Res.Stdout, b.Res.Stdout) {
			add("plus-separated-list-differs", fmt.Sprintf("entries=%d", j/2+1), b.Label, "a '+' separated list parameter yields a different file than the YAML list: "+firstDiffLine(a.Res.Content(), b.Res.Content()), map[string]interface{}{"kind": "request", "yaml": b.YAML, "param": b.Param})
		} else {
			r.Outcomes["list-equal"]++
		}
	}
	// 4. negative cases
	dir := filepath.Join(r.Mod.Root, "neg")
	os.MkdirAll(filepath.Join(dir, "adir"), 0o755)
	os.WriteFile(filepath.Join(dir, "broken.yaml"), []byte("types: [Alpha\n  - : :\n\t{"), 0o644)
	os.WriteFile(filepath.Join(dir, "wrongshape.yaml"), []byte("- just\n- a\n- list\n"), 0o644)
	os.WriteFile(filepath.Join(dir, "wrongshape2.yaml"), []byte("types:\n  key: value\n"), 0o644)
	noTypes := cfg.Clone()
	noTypes.Types = nil
	negs := []*gExec{
		{Label: "no types on either channel", FD: fd, YAML: noTypes.YAML(nil, nil)},
		{Label: "no types, no config at all", FD: fd, NoCfg: true, Param: "sort=true"},
		{Label: "empty types list in YAML", FD: fd, YAML: "---\ntypes: []\nsort: true\n"},
		{Label: "types parameter present but empty", FD: fd, YAML: noTypes.YAML(nil, nil), Param: "types=,sort=true"},
		{Label: "config names a missing file", FD: fd, CfgPath: filepath.Join(dir, "missing.yaml"), Param: "types=Alpha"},
		{Label: "config names a directory", FD: fd, CfgPath: filepath.Join(dir, "adir"), Param: "types=Alpha"},
		{Label: "config is not parsable YAML", FD: fd, CfgPath: filepath.Join(dir, "broken.yaml"), Param: "types=Alpha"},
		{Label: "config has the wrong shape (list)", FD: fd, CfgPath: filepath.Join(dir, "wrongshape.yaml"), Param: "types=Alpha"},
		{Label: "config has the wrong shape (types is a map)", FD: fd, CfgPath: filepath.Join(dir, "wrongshape2.yaml"), Param: "types=Alpha"},
	}
	r.runAll(negs, bin)
	for _, e := range negs {
		failed := e.Res.ExitCode != 0 || (e.Res.Resp != nil && e.Res.Resp.Error != nil)
		nfiles := 0
		if e.Res.Resp != nil {
			nfiles = len(e.Res.Resp.File)
		}
		if !failed || nfiles > 0 {
			add("generates-despite-bad-configuration", "neg:"+e.Label, e.Label, fmt.Sprintf("plugin exit=%d error-set=%v files=%d for: %s", e.Res.ExitCode, e.Res.Resp != nil && e.Res.Resp.Error != nil, nfiles, e.Label), map[string]interface{}{"kind": "request", "param": e.Param, "case": e.Label})
		} else {
			r.Outcomes["negative-fails"]++
		}
	}
	// 5. every option on the command line, the config file absent or holding no YAML document at all
	{
		f2 := c15File([]int{0, 1, 2, 3, 4}, [2]bool{}, []int{0, 1, 2, 3})
		f2.Pkg, f2.Name = "perm", "perm.proto"
		fd2 := f2.Descriptor()
		// (lower_snake proto names among the list elements: fields are addressed by their proto name)
		c2 := &dsl.Config{Types: []string{"Perm", "Twin"}, Exclude: []string{"Perm.Hidden", "Perm.a_flag"}, Computed: []string{"Perm.Scal", "Leaf.I", "Perm.a_num"}, Required: []string{"Twin.Who"}, Sensitive: []string{"Leaf.S", "Perm.z_str", "Perm.z_leaf.S"},
			DefaultPkg: "example.com/acme/structs", TargetPkg: "tfschema", Sort: true, DurationCustomType: "Duration"}
		var params []string
		for i, o := range opts {
			if _, ok := accepted[i]; ok {
				params = append(params, spelling[i]+"="+o.value(c2))
			}
		}
		param := strings.Join(params, ",")
		ref2 := &gExec{Label: "dual-only all-YAML", FD: fd2, YAML: c2.YAML(nil, nil)}
		variants := []*gExec{
			{Label: "all-parameter, no config parameter", FD: fd2, NoCfg: true, Param: param},
			{Label: "all-parameter, zero-byte config file", FD: fd2, YAML: "", Param: param},
			{Label: "all-parameter, comment-only config file", FD: fd2, YAML: "# nothing configured here\n# (everything is on the command line)\n", Param: param},
			{Label: "all-parameter, blank-lines-only config file", FD: fd2, YAML: "\n   \n\n", Param: param},
			{Label: "all-parameter, config file with an empty document", FD: fd2, YAML: "---\n", Param: param},
			{Label: "all-parameter, config file with an empty mapping", FD: fd2, YAML: "{}\n", Param: param},
		}
		// the same all-YAML configuration read from a path with blanks, and split with the list options as parameters
		spaced := filepath.Join(r.Mod.Root, "neg", "My Project", "tf config")
		os.MkdirAll(spaced, 0o755)
		os.WriteFile(filepath.Join(spaced, "config file.yaml"), []byte(c2.YAML(nil, nil)), 0o644)
		variants = append(variants,
			&gExec{Label: "all-YAML, config path with blanks", FD: fd2, CfgPath: filepath.Join(spaced, "config file.yaml")},
			&gExec{Label: "all-parameter, config path with blanks", FD: fd2, CfgPath: filepath.Join(spaced, "config file.yaml"), Param: param})
		if len(params) == len(opts) {
			r.runAll(append([]*gExec{ref2}, variants...), bin)
			if ref2.Res.ExitCode != 0 || ref2.Res.Content() == "" {
				r.HarnessErrs = append(r.HarnessErrs, "dual-only reference execution failed: "+lastLines(ref2.Res.Stderr, 3))
			} else {
				for _, e := range variants {
					if e.Res.ExitCode != 0 || !bytes.Equal(e.Res.Stdout, ref2.Res.Stdout) {
						diff := fmt.Sprintf("exit status %d: %s", e.Res.ExitCode, lastLines(e.Res.Stderr, 2))
						if e.Res.ExitCode == 0 {
							diff = firstDiffLine(ref2.Res.Content(), e.Res.Content())
						}
						add("channels-not-equivalent", "all-parameter:"+strings.TrimPrefix(e.Label, "all-parameter, "), e.Label, "output differs from the all-YAML execution: "+diff, map[string]interface{}{"kind": "request", "yaml": e.YAML, "param": e.Param, "no_config": e.NoCfg})
					} else {
						r.Outcomes["all-parameter-equal"]++
					}
				}
			}
			execs = append(execs, variants...)
		}
	}
	r.States = len(execs) + len(negs) + len(probes) + 1
	r.Nontrivial = r.States
	r.Bounds = append(r.Bounds, fmt.Sprintf("channel assignments within k=%d deviations of all-YAML and of all-parameter over %d options", k, len(usable)))
	return r.finish()
}
