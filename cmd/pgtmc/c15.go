package main

import (
	"fmt"
	"os"
	"strings"

	"verif/explorer"
	"verif/internal/dsl"
	"verif/internal/space"
)

func permutations(n int) [][]int {
	var out [][]int
	var rec func(cur []int, used []bool)
	rec = func(cur []int, used []bool) {
		if len(cur) == n {
			out = append(out, append([]int{}, cur...))
			return
		}
		for i := 0; i < n; i++ {
			if !used[i] {
				used[i] = true
				rec(append(cur, i), used)
				used[i] = false
			}
		}
	}
	rec(nil, make([]bool, n))
	return out
}

// c15Items are the top-level items of message Perm: plain fields (one of them excluded by the
// configuration, one an embedded message that expands to several attributes) and two oneof blocks.
// Indices 3 and 4 are the oneof blocks.
func c15Items() [][]*dsl.Field {
	return [][]*dsl.Field{
		{{Name: "Scal", Num: 1, T: dsl.String, Comment: " Scal is the scalar"}, {Name: "Hidden", Num: 8, T: dsl.String, Comment: " Hidden is excluded by the configuration"}, {Name: "PermID", Num: 10, T: dsl.String, JSONTag: dsl.S("perm_id_upper"), Comment: " PermID and PermId differ in case only"}},
		{{Name: "Lst", Num: 2, T: dsl.String, Card: dsl.Repeated, Comment: " Lst is the list"}, {Name: "Leaf", Num: 9, T: dsl.Msg, Ref: "Leaf", Embed: true, Nullable: dsl.B(false), Comment: " Leaf is embedded"}},
		{{Name: "Nest", Num: 3, T: dsl.Msg, Ref: "Leaf", Comment: " Nest is the nested message"}, {Name: "PermId", Num: 11, T: dsl.Int64, JSONTag: dsl.S("perm_id_lower"), Comment: " PermId is the other one"}},
		{{Name: "z_str", Num: 4, T: dsl.String, Oneof: "Zeta", Comment: " z_str branch"}, {Name: "z_leaf", Num: 5, T: dsl.Msg, Ref: "Leaf", Oneof: "Zeta", Comment: " z_leaf branch"}},
		{{Name: "a_num", Num: 6, T: dsl.Int32, Oneof: "Alpha", Comment: " a_num branch"}, {Name: "a_flag", Num: 7, T: dsl.Bool, Oneof: "Alpha", Comment: " a_flag branch"}},
	}
}

// c15EmbOrder selects the declaration order of the embedded message Emb (0: branches adjacent, 1: a
// plain field between the two branches of its oneof, 2: reversed)
var c15EmbOrder = 0

func c15File(itemPerm []int, intra [2]bool, msgPerm []int) *dsl.File {
	items := c15Items()
	perm := &dsl.Message{Name: "Perm", Comment: " Perm is permuted"}
	for _, ii := range itemPerm {
		it := items[ii]
		fs := append([]*dsl.Field{}, it...)
		if ii < 3 && len(fs) >= 2 && intra[0] != intra[1] {
			// the companion field (excluded / embedded) moves to the other side of its neighbour
			fs[0], fs[1] = fs[1], fs[0]
		}
		if ii >= 3 {
			blk := ii - 3
			if intra[blk] {
				fs[0], fs[1] = fs[1], fs[0]
			}
			perm.Oneofs = append(perm.Oneofs, fs[0].Oneof)
		}
		perm.Fields = append(perm.Fields, fs...)
	}
	leaf := &dsl.Message{Name: "Leaf", Comment: " Leaf is small", Fields: []*dsl.Field{{Name: "S", Num: 1, T: dsl.String}, {Name: "I", Num: 2, T: dsl.Int32}}}
	twin := &dsl.Message{Name: "Twin", Comment: " Twin is a second root", Fields: []*dsl.Field{{Name: "Who", Num: 1, T: dsl.String}, {Name: "Inner", Num: 2, T: dsl.Msg, Ref: "Leaf", Nullable: dsl.B(false)}, {Name: "Count", Num: 3, T: dsl.Int64}, {Name: "Nest", Num: 4, T: dsl.Msg, Ref: "Leaf", Comment: " Nest of the twin (same field name and type as Perm.Nest)"}}}
	unused := &dsl.Message{Name: "Bystander", Fields: []*dsl.Field{{Name: "B", Num: 1, T: dsl.Bool}}}
	// a third root whose name differs from Twin's only in letter case, with two fields that differ only in case
	twin2 := &dsl.Message{Name: "TWin", Comment: " TWin differs from Twin in case only", Fields: []*dsl.Field{
		{Name: "UserID", Num: 1, T: dsl.String, JSONTag: dsl.S("user_id_upper")}, {Name: "UserId", Num: 2, T: dsl.String, JSONTag: dsl.S("user_id_lower")}, {Name: "Nest", Num: 3, T: dsl.Msg, Ref: "Leaf"}}}
	ea := &dsl.Field{Name: "EA", Num: 1, T: dsl.String, Oneof: "Choice"}
	eb := &dsl.Field{Name: "EB", Num: 2, T: dsl.Int32, Oneof: "Choice"}
	em := &dsl.Field{Name: "EMid", Num: 3, T: dsl.String}
	emb := &dsl.Message{Name: "Emb", Oneofs: []string{"Choice"}, Fields: [][]*dsl.Field{{ea, eb, em}, {ea, em, eb}, {em, eb, ea}}[c15EmbOrder]}
	twin.Fields = append(twin.Fields, &dsl.Field{Name: "Emb", Num: 5, T: dsl.Msg, Ref: "Emb", Embed: true, Nullable: dsl.B(false)})
	twin2.Fields = append(twin2.Fields, &dsl.Field{Name: "Emb", Num: 5, T: dsl.Msg, Ref: "Emb", Embed: true})
	msgs := []*dsl.Message{perm, leaf, twin, unused, twin2}

	f := &dsl.File{GettersOff: true}
	for _, mi := range msgPerm {
		f.Messages = append(f.Messages, msgs[mi])
	}
	f.Messages = append(f.Messages, emb)
	return f
}

func blockOrderChanged(itemPerm []int) bool {
	pz, pa := 0, 0
	for i, x := range itemPerm {
		if x == 3 {
			pz = i
		}
		if x == 4 {
			pa = i
		}
	}
	return pa < pz
}

func checkC15(r *Run) int {
	r.Rule = "one plugin execution per permutation of the 5 top-level items of a message (3 fields + 2 oneof blocks), of the fields inside the blocks, and of the 4 messages of the file, each with sort on and off; oracle: sort on => byte-identical file; sort off => equal run-time schema and equal behaviour digests of the compiled variants over the K alphabets"
	if err := r.prepare(); err != nil {
		fmt.Fprintln(os.Stderr, err)
		return 2
	}
	defer r.Mod.Cleanup()
	id5 := []int{0, 1, 2, 3, 4}
	id4 := []int{0, 1, 2, 3, 4}
	type variant struct {
		item  []int
		intra [2]bool
		msg   []int
		class string
		split bool
		emb   int
	}
	var vs []variant
	for _, p := range permutations(5) {
		cls := "field-order"
		if blockOrderChanged(p) {
			cls = "oneof-block-order"
		}
		intras := [][2]bool{{false, false}}
		if r.Tier == "thorough" {
			intras = [][2]bool{{false, false}, {true, false}, {false, true}, {true, true}}
		}
		for _, in := range intras {
			vs = append(vs, variant{p, in, id4, cls, false, 0})
		}
	}
	for _, in := range [][2]bool{{true, false}, {false, true}, {true, true}} {
		vs = append(vs, variant{id5, in, id4, "branch-order-within-block", false, 0})
	}
	vs = append(vs, variant{id5, [2]bool{}, id4, "embedded-message-field-order", false, 1}, variant{id5, [2]bool{}, id4, "embedded-message-field-order", false, 2})
	msgPerms := permutations(5)[1:]
	if r.Tier != "thorough" {
		// quick: every transposition and every rotation of the five messages, plus a fifth of the rest
		var sel [][]int
		for i, mp := range msgPerms {
			moved := 0
			for k, x := range mp {
				if x != k {
					moved++
				}
			}
			if moved == 2 || i%5 == 0 {
				sel = append(sel, mp)
			}
		}
		msgPerms = sel
	}
	for _, mp := range msgPerms {
		vs = append(vs, variant{id5, [2]bool{}, mp, "message-order", false, 0})
		if r.Tier == "thorough" {
			vs = append(vs, variant{[]int{2, 0, 1, 3, 4}, [2]bool{}, mp, "message-order+field-order", false, 0})
		}
	}
	// the same permutations with the non-root messages declared in an imported file of the package
	// (the order inside the generated file then no longer lines up with the order inside the imported one)
	nPlain := len(vs)
	for i, v := range append([]variant{}, vs...) {
		if v.class == "message-order" || i%10 == 0 || r.Tier == "thorough" {
			v.split = true
			vs = append(vs, v)
		}
	}
	_ = nPlain
	var execs []*gExec
	var cases []*space.Case
	for i, v := range vs {
		for _, srt := range []bool{true, false} {
			c15EmbOrder = v.emb
			f := c15File(v.item, v.intra, v.msg)
			f.Pkg, f.Name = "perm", "perm.proto"
			if v.split {
				sc := space.Split(&space.Case{Label: "x", File: f, Cfg: space.BaseConfig("Perm", "Twin", "TWin", "Leaf"), Tags: map[string]string{}})
				if sc != nil {
					f = sc.File
				}
			}
			cfg := space.BaseConfig("Perm", "Twin", "TWin", "Leaf")
			cfg.Sort = srt
			cfg.Exclude = []string{"Perm.Hidden"}
			// options addressed by full path below the two roots' equally named fields
			cfg.Required = []string{"Twin.Nest.S"}
			cfg.Computed = []string{"Perm.Nest.I"}
			cfg.Sensitive = []string{"Twin.Nest.I", "Perm.Nest.S"}
			cfg.NameOverrides = map[string]string{"Twin.Nest.S": "twin_s"}
			label := fmt.Sprintf("items=%v intra=%v msgs=%v sort=%v", v.item, v.intra, v.msg, srt)
			if v.split {
				label += " split-files"
			}
			if v.emb != 0 {
				label += fmt.Sprintf(" embedded-order=%d", v.emb)
			}
			execs = append(execs, &gExec{Label: label, FD: f.Descriptor(), Extra: f.SiblingDescriptors(), YAML: cfg.YAML(nil, nil)})
			if !srt && !v.split {
				fc := c15File(v.item, v.intra, v.msg)
				c15EmbOrder = 0
				cases = append(cases, &space.Case{Label: "C15/" + label, Family: "F6", Group: "perm", Variant: fmt.Sprint(i), Tags: map[string]string{"class": "perm", "card": v.class, "vt": "perm", "pos": "P0"}, File: fc, Cfg: cfg})
			}
		}
	}
	r.runAll(execs, r.Mod.Tools.Plugin)
	r.phase("plugin runs")
	refSortedBy := map[bool]string{}
	for i, e := range execs {
		v := vs[i/2]
		if e.Res.ExitCode != 0 || e.Res.Content() == "" {
			r.addFinding(&Finding{Property: r.ID, Kind: "generation-failed", Shape: v.class, Label: e.Label, Msg: lastLines(e.Res.Stderr, 3), Count: 1})
			continue
		}
		if i%2 == 0 { // sort on
			refSorted := refSortedBy[v.split]
			if refSorted == "" {
				refSortedBy[v.split] = e.Res.Content()
				continue
			}
			if e.Res.Content() != refSorted {
				r.Outcomes["sorted-differs"]++
				r.addFinding(&Finding{Property: r.ID, Kind: "sorted-output-depends-on-declaration-order", Shape: v.class, Label: e.Label, Msg: "with sort enabled the file differs from the one for the identity order: " + firstDiffLine(refSorted, e.Res.Content()), Count: 1,
					Witness: map[string]interface{}{"kind": "request", "label": e.Label, "proto": c15File(v.item, v.intra, v.msg).ProtoText(), "config": e.YAML}})
			} else {
				r.Outcomes["sorted-identical"]++
			}
		}
	}
	if len(execs) > 0 {
		r.Samples = append(r.Samples, map[string]interface{}{"request": execs[2].Label, "sha": sha([]byte(execs[2].Res.Content()))})
	}
	// sort off: behaviour of the compiled variants
	built := r.Mod.Generate(cases)
	bin, err := r.Mod.Build(nil)
	if err != nil {
		r.HarnessErrs = append(r.HarnessErrs, err.Error())
		return r.finish()
	}
	for _, b := range built {
		if b.CompileErr != "" {
			r.addFinding(&Finding{Property: r.ID, Kind: "does-not-compile", Shape: b.Tags["card"], Label: b.Label, Msg: firstLines(b.CompileErr, 6), Count: 1, Witness: witnessOf(b)})
		}
	}
	r.phase("compile")
	lines, errs := r.Mod.RunHarness(bin, 16, []string{"--prop", "DIGEST", "--tier", "quick"}, 900)
	r.HarnessErrs = append(r.HarnessErrs, errs...)
	res := r.absorb(lines)
	compareDigests(r, res, func(x *explorer.Result) string { return x.Root }, "behaviour-depends-on-declaration-order")
	r.States += len(execs)
	r.Nontrivial += len(execs)
	return r.finish()
}

// compareDigests compares the digests of all results that share key(x); the first (by label) is the reference.
func compareDigests(r *Run, res []*explorer.Result, key func(x *explorer.Result) string, kind string) {
	ref := map[string]*explorer.Result{}
	for _, x := range res {
		if x.Digests == nil {
			continue
		}
		k := key(x)
		if old, ok := ref[k]; !ok || x.Label < old.Label {
			ref[k] = x
		}
	}
	for _, x := range res {
		if x.Digests == nil {
			continue
		}
		base := ref[key(x)]
		if base == x {
			continue
		}
		same := true
		for name, d := range base.Digests {
			if x.Digests[name] != d {
				same = false
				detail := ""
				if name == "schema" {
					detail = firstDiffLine(d, x.Digests[name])
				}
				r.addFinding(&Finding{Property: r.ID, Kind: kind, Shape: x.Tags["card"] + "/" + name, Label: x.Label, Root: x.Root, Count: 1,
					Msg:     fmt.Sprintf("%s of %s differs between %s and %s %s", name, x.Root, base.Label, x.Label, detail),
					Witness: map[string]interface{}{"kind": "variant-pair", "reference": base.Label, "variant": x.Label, "component": name}})
			}
		}
		if same {
			r.Outcomes["variant-behaves-identically"]++
		} else {
			r.Outcomes["variant-differs"]++
		}
	}
}

var _ = strings.Join
