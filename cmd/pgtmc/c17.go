package main

import (
	"fmt"
	"strings"

	"verif/internal/dsl"
	"verif/internal/space"
)

func c17Cases(tier string) []*space.Case {
	var out []*space.Case
	add := func(label string, f *dsl.File, c *dsl.Config) {
		out = append(out, &space.Case{Label: "C17/" + label, Family: "C17", Tags: map[string]string{"class": "custom", "card": label, "vt": "custom", "pos": "P0"}, File: f, Cfg: c})
	}
	// proto-option custom types (F1 shapes), suffix configured and defaulted
	for _, c := range space.F1("X", "my_field") {
		if c.Tags["class"] == "custom" {
			c.Label = "C17/" + c.Label
			c.Tags["class"] = "custom"
			// flags and comment on the custom field
			for _, m := range c.File.Messages {
				if m.Name == "Root" {
					m.Fields[0].Comment = " custom field\n  with two lines"
				}
			}
			p := "Root." + c.File.Messages[0].Fields[0].Name
			c.Cfg.Computed = []string{p}
			c.Cfg.Sensitive = []string{p}
			c.Cfg.Validators = map[string][]string{p: {dsl.TFX + ".V(5)"}}
			out = append(out, c)
		}
	}
	// proto customtype P re-typed by a custom_types entry C: the effective type is C (the configuration
	// entry wins), so the suffix is C's - whether or not P, C or both have a suffixes entry
	for i, sfx := range []map[string]string{{"BoolCustom": "BoolSpecial"}, {"BoolCustom": "BoolSpecial", "AltType": "Alt"}, {"AltType": "Alt"}, {}} {
		f := space.Close(&dsl.File{GettersOff: true, Messages: []*dsl.Message{{Name: "Root", Fields: []*dsl.Field{
			{Name: "Over", Num: 1, T: dsl.Bool, CustomType: "BoolCustom", Card: dsl.Repeated},
			{Name: "Keep", Num: 2, T: dsl.Bool, CustomType: "BoolCustom", Card: dsl.Repeated},
			{Name: "Plain", Num: 3, T: dsl.String},
		}}}})
		c := space.BaseConfig("Root")
		c.Suffixes = sfx
		c.CustomTypes = map[string]string{"Root.Over": "AltType"}
		add(fmt.Sprintf("retyped/%d", i), f, c)
	}
	// configuration-declared custom types on arbitrary fields, in positions P0-P4
	shapes := []struct {
		name string
		mk   func() *dsl.Field
	}{
		{"string", func() *dsl.Field { return &dsl.Field{Name: "X", Num: 1, T: dsl.String} }},
		{"repeated-string", func() *dsl.Field { return &dsl.Field{Name: "X", Num: 1, T: dsl.String, Card: dsl.Repeated} }},
		{"map", func() *dsl.Field { return &dsl.Field{Name: "X", Num: 1, T: dsl.Int64, Card: dsl.Map} }},
		{"message", func() *dsl.Field { return &dsl.Field{Name: "X", Num: 1, T: dsl.Msg, Ref: "Leaf"} }},
		{"repeated-message", func() *dsl.Field {
			return &dsl.Field{Name: "X", Num: 1, T: dsl.Msg, Ref: "Leaf", Card: dsl.Repeated, Nullable: dsl.B(false)}
		}},
		// fields the generator would otherwise treat as durations / times
		{"cast-duration", func() *dsl.Field { return &dsl.Field{Name: "X", Num: 1, T: dsl.Int64, CastType: "Duration"} }},
		{"std-duration", func() *dsl.Field {
			return &dsl.Field{Name: "X", Num: 1, T: dsl.Msg, Ref: dsl.Duration, StdDur: true, Nullable: dsl.B(false)}
		}},
		{"std-time", func() *dsl.Field { return &dsl.Field{Name: "X", Num: 1, T: dsl.Msg, Ref: dsl.Timestamp, StdTime: true} }},
		{"enum", func() *dsl.Field { return &dsl.Field{Name: "X", Num: 1, T: dsl.Enum, Ref: "Mode"} }},
	}
	types := []struct{ name, typ, suffix string }{
		{"plain-default", "Traits", ""},
		{"qualified-default", "github.com/acme/pkg/wrappers.Traits", ""},
		{"qualified-configured", "github.com/acme/pkg/wrappers.Traits", "Traits"},
		{"underscores-default", "my_pkg/sub_dir.Path_Value2", ""},
	}
	positions := []string{"P0", "P1nullable", "P2nonnull", "P3listval", "P3listptr", "P4mapval", "P4mapptr", "P6embedval", "P6embedptr", "P1nullable>P6embedval", "P3listval>P6embedptr"}
	for si, sh := range shapes {
		for ti, ty := range types {
			for pi, pos := range positions {
				if tier != "thorough" && (si+ti+pi)%2 == 1 && pos != "P0" && !(pos == "P6embedptr" && ti == 0) && !(strings.Contains(pos, ">") && ti == 0 && si < 5) {
					continue
				}
				fld := sh.mk()
				fld.Comment = " delegated to hooks"
				other := &dsl.Field{Name: "Y", Num: 2, T: dsl.String}
				var f *dsl.File
				path := ""
				if pos == "P0" {
					f = space.Close(&dsl.File{GettersOff: true, Messages: []*dsl.Message{{Name: "Root", Fields: []*dsl.Field{fld, other}}}})
					path = "Root.X"
				} else if strings.Contains(pos, ">") {
					// Root -> Mid (nested / list element) -> embedded Inner: the promoted field is addressed as Mid.X
					inner := &dsl.Message{Name: "Inner", Fields: []*dsl.Field{fld, other}}
					emb := &dsl.Field{Name: "Inner", Num: 1, T: dsl.Msg, Ref: "Inner", Embed: true}
					if strings.HasSuffix(pos, "P6embedval") {
						emb.Nullable = dsl.B(false)
					}
					mid := &dsl.Message{Name: "Mid", Fields: []*dsl.Field{emb, {Name: "MidNote", Num: 2, T: dsl.String}}}
					sub := &dsl.Field{Name: "Sub", Num: 1, T: dsl.Msg, Ref: "Mid"}
					if strings.HasPrefix(pos, "P3listval") {
						sub.Card = dsl.Repeated
						sub.Nullable = dsl.B(false)
					}
					root := &dsl.Message{Name: "Root", Fields: []*dsl.Field{sub, {Name: "Side", Num: 2, T: dsl.String}}}
					f = space.Close(&dsl.File{GettersOff: true, Messages: []*dsl.Message{root, mid, inner}})
					path = "Mid.X"
				} else {
					inner := &dsl.Message{Name: "Inner", Fields: []*dsl.Field{fld, other}}
					root := &dsl.Message{Name: "Root"}
					sub := &dsl.Field{Name: "Sub", Num: 1, T: dsl.Msg, Ref: "Inner"}
					switch pos {
					case "P2nonnull":
						sub.Nullable = dsl.B(false)
					case "P3listval":
						sub.Card = dsl.Repeated
						sub.Nullable = dsl.B(false)
					case "P3listptr":
						sub.Card = dsl.Repeated
					case "P4mapval":
						sub.Card = dsl.Map
						sub.Nullable = dsl.B(false)
					case "P4mapptr":
						sub.Card = dsl.Map
					case "P6embedval":
						sub.Name, sub.Embed = "Inner", true
						sub.Nullable = dsl.B(false)
					case "P6embedptr":
						sub.Name, sub.Embed = "Inner", true
					}
					root.Fields = []*dsl.Field{sub, {Name: "Side", Num: 2, T: dsl.String}}
					f = space.Close(&dsl.File{GettersOff: true, Messages: []*dsl.Message{root, inner}})
					path = "Root.Sub.X"
					if sub.Embed {
						// the children of an embedded message are addressed through the containing message
						path = "Root.X"
					}
				}
				c := space.BaseConfig("Root")
				c.CustomTypes = map[string]string{path: ty.typ}
				if ty.suffix != "" {
					c.Suffixes[ty.typ] = ty.suffix
				}
				c.Required = []string{path}
				c.PlanModifiers = map[string][]string{path: {dsl.TFX + ".PM(3)"}}
				add(fmt.Sprintf("config/%s/%s/%s", sh.name, ty.name, pos), f, c)
			}
		}
	}
	// proto-option custom fields inside nullable / by-value embedded messages and their hosts
	for _, c := range space.F4()[3:6] {
		n := *c
		n.Label = "C17/" + c.Label
		out = append(out, &n)
	}
	return out
}
