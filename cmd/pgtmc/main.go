// pgtmc is the driver of the protoc-gen-terraform model-checking framework.
//
//	pgtmc setup                       build helper binaries and warm the dependency cache
//	pgtmc check <ID> [--tier quick]   decide one property on /repo's working tree
//	pgtmc replay <file>               re-execute one recorded violation
package main

import (
	"flag"
	"fmt"
	"os"
	"os/exec"
	"path/filepath"
	"strconv"
	"strings"
	"time"

	"verif/internal/gen"
)

var verifDir = "/verif"

func main() {
	if d := os.Getenv("VERIF_DIR"); d != "" {
		verifDir = d
	} else if wd, err := os.Getwd(); err == nil {
		if _, err := os.Stat(filepath.Join(wd, "known_findings.json")); err == nil {
			verifDir = wd
		}
	}
	if r := os.Getenv("VERIF_REPO"); r != "" {
		gen.Repo = r
	}
	if len(os.Args) < 2 {
		usage()
	}
	switch os.Args[1] {
	case "setup":
		os.Exit(setup())
	case "check":
		fs := flag.NewFlagSet("check", flag.ExitOnError)
		tier := fs.String("tier", "", "quick|thorough")
		if len(os.Args) < 3 {
			usage()
		}
		id := os.Args[2]
		fs.Parse(os.Args[3:])
		if *tier == "" {
			*tier = os.Getenv("VERIF_TIER")
		}
		if *tier == "" {
			*tier = "quick"
		}
		seed, _ := strconv.Atoi(os.Getenv("VERIF_SEED"))
		os.Exit(runCheck(id, *tier, seed))
	case "replay":
		if len(os.Args) < 3 {
			usage()
		}
		os.Exit(runReplay(os.Args[2]))
	default:
		usage()
	}
}

func usage() {
	fmt.Fprintln(os.Stderr, "usage: pgtmc setup | check <ID> [--tier quick|thorough] | replay <file>")
	os.Exit(2)
}

func setup() int {
	os.MkdirAll(filepath.Join(verifDir, "bin"), 0o755)
	if err := gen.BuildGogo(filepath.Join(verifDir, "bin", "protoc-gen-gogo")); err != nil {
		fmt.Fprintln(os.Stderr, err)
		return 1
	}
	// warm a dependency-only build cache
	cache := filepath.Join(verifDir, ".cache", "gocache")
	os.MkdirAll(cache, 0o755)
	start := time.Now()
	cmd := exec.Command("go", "build", "./explorer/...", "./tfx/...", "./spec/...")
	cmd.Dir = verifDir
	cmd.Env = gen.GoEnv("GOCACHE=" + cache)
	if out, err := cmd.CombinedOutput(); err != nil {
		fmt.Fprintf(os.Stderr, "warming cache: %v\n%s", err, out)
		return 1
	}
	// also the packages generated code imports (gogo proto runtime, time, fmt ...)
	tmp, _ := os.MkdirTemp("", "pgtmc-warm-")
	defer os.RemoveAll(tmp)
	src := `package main
import (
	_ "github.com/gogo/protobuf/gogoproto"
	_ "github.com/gogo/protobuf/proto"
	_ "github.com/gogo/protobuf/types"
	_ "github.com/golang/protobuf/ptypes/timestamp"
	_ "verif/explorer"
)
func main() {}
`
	os.WriteFile(filepath.Join(tmp, "main.go"), []byte(src), 0o644)
	repoMod, _ := os.ReadFile(filepath.Join(gen.Repo, "go.mod"))
	idx := strings.Index(string(repoMod), "require")
	os.WriteFile(filepath.Join(tmp, "go.mod"), []byte("module warm\n\ngo 1.18\n\nrequire verif v0.0.0\n\nreplace verif => "+verifDir+"\n\n"+string(repoMod[idx:])), 0o644)
	sum, _ := os.ReadFile(filepath.Join(gen.Repo, "go.sum"))
	os.WriteFile(filepath.Join(tmp, "go.sum"), sum, 0o644)
	cmd = exec.Command("go", "build", "-o", filepath.Join(tmp, "warm"), ".")
	cmd.Dir = tmp
	cmd.Env = gen.GoEnv("GOCACHE=" + cache)
	if out, err := cmd.CombinedOutput(); err != nil {
		fmt.Fprintf(os.Stderr, "warming cache (link): %v\n%s", err, out)
		return 1
	}
	// the plugin's own dependencies
	if err := gen.BuildPlugin(filepath.Join(tmp, "plugin"), "verif", "", "GOCACHE="+cache); err != nil {
		fmt.Fprintln(os.Stderr, err)
		return 1
	}
	// the plugin built over the map-iteration scheduler overlay (C14)
	if oj, err := gen.PrepareMapOverlay(filepath.Join(tmp, "rt"), verifDir); err == nil {
		if err := gen.BuildPlugin(filepath.Join(tmp, "plugin-ov"), "verif", oj, "GOCACHE="+cache); err != nil {
			fmt.Fprintln(os.Stderr, "warning: overlay build failed:", err)
		}
	} else {
		fmt.Fprintln(os.Stderr, "warning: map overlay unavailable:", err)
	}
	fmt.Printf("setup done in %.1fs\n", time.Since(start).Seconds())
	return 0
}
