package main

import (
	"encoding/json"
	"fmt"

	"os"
	"verif/internal/dsl"

	"verif/internal/space"
)

// shapeCases is the descriptor family selection shared by the K properties.
func shapeCases(tier string) []*space.Case {
	var cs []*space.Case
	if tier == "thorough" {
		cs = append(cs, space.F1("X", "my_field")...)
		cs = append(cs, space.F2(space.Representatives(), false)...)
		cs = append(cs, space.F3(space.PairRepresentatives())...)
		deep := [][2]string{{"string", "single"}, {"string", "repeated"}, {"string", "map"}, {"msgNullable", "single"}, {"msgNonNull", "repeated"}, {"string", "oneof"}, {"msgNullable", "oneof"}, {"customBool", "single"}}
		cs = append(cs, space.F2(deep, true)...)
	} else {
		cs = append(cs, space.F1("X")...)
		cs = append(cs, space.F2(space.Representatives(), false)...)
	}
	cs = append(cs, space.F4()...)
	cs = append(cs, configuredCases(tier)...)
	// sorted generation of every case that contains a oneof (the first declared branch is not the
	// alphabetically smallest one in these messages), and of the sink
	var sorted []*space.Case
	for _, c := range cs {
		if hasOneofMsg(c) && (c.Family == "F1" || c.Family == "F4" || tier == "thorough") {
			v := space.Variant(c, true, false, "none")
			sorted = append(sorted, v)
		}
	}
	cs = append(cs, sorted...)
	// injected (schema only) attributes on root and nested paths, including paths of messages without fields
	cs = append(cs, injectedCases()...)
	return cs
}

// configuredCases: the converters are also explored under non-default configurations (sorting,
// renames, per-field options in both key forms, exclusions), on lower_snake names, on pairs of
// shape classes in one message, on the multi-root file and on a recursive message cut by exclusions.
func configuredCases(tier string) []*space.Case {
	var out []*space.Case
	if tier != "thorough" {
		for _, c := range space.F1("my_field") {
			switch c.Tags["vt"] + "/" + c.Tags["card"] {
			case "string/single", "msgNullable/single", "string/oneof", "msgNullable/oneof", "string/repeated", "int64/map", "enum/single", "stdtimeNullable/single", "bytes/oneof":
				out = append(out, c)
			}
		}
		reps := [][2]string{{"string", "single"}, {"msgNullable", "single"}, {"string", "oneof"}, {"msgNullable", "oneof"}, {"emptyNullable", "single"}, {"string", "repeated"}, {"string", "map"}, {"msgNonNull", "repeated"}, {"customBool", "single"},
			{"embedAuthPtr", "single"}, {"embedLimitsPtr", "single"}, {"embedRichVal", "single"}}
		out = append(out, space.F3(reps)...)
		out = append(out, space.F2Sample(space.Representatives())...)
	}
	sink := space.F4()[0]
	out = append(out, space.Variant(sink, true, false, "names"), space.Variant(sink, false, false, "typekey-options"))
	f5 := space.F5()[0]
	out = append(out, f5, space.Variant(f5, true, false, "typekey-options"))
	ex := space.F5()[0]
	ex.Cfg.Exclude = []string{"Shared.Label", "Alpha.Items", "Beta.ByKey.Tiny", "Gamma.KT", "Tiny.N"}
	ex.Label = "F5/all|excluded"
	out = append(out, ex)
	out = append(out, space.AllExcluded()...)
	// every per-field flag (required, computed, sensitive, validators, plan modifiers) on every path:
	// the flags belong to the schema and must not change what the converters do
	for _, c := range space.F1("X") {
		temporal := c.Tags["class"] == "time" || c.Tags["class"] == "duration"
		if c.Tags["card"] == "single" || c.Tags["card"] == "embed" || temporal || c.Tags["vt"] == "string" || c.Tags["vt"] == "msgNullable" {
			out = append(out, space.Variant(c, false, false, "flags"))
			if c.Tags["card"] == "single" || temporal {
				// computed with the default UseStateForUnknown switch and no explicit modifiers
				out = append(out, space.Variant(c, false, false, "usu"))
			}
		}
	}
	// every shape-class representative below a position, under the option mixes (flags on every path,
	// renames on every path) and in a multi-file package: rotating positions in the quick tier (each
	// representative meets each mix once, each position meets each mix three times), the full product in thorough
	{
		reps := space.Representatives()
		byLabel := map[string]*space.Case{}
		for _, c := range space.F2(reps, false) {
			byLabel[c.Tags["pos"]+"/"+c.Tags["card"]+"/"+c.Tags["vt"]] = c
		}
		np := len(space.Positions)
		for i, r := range reps {
			for j, pos := range space.Positions {
				c := byLabel[pos+"/"+r[1]+"/"+r[0]]
				if c == nil {
					continue
				}
				if tier == "thorough" || j == i%np {
					out = append(out, space.Variant(c, false, false, "flags"))
				}
				if tier == "thorough" || j == (i+4)%np {
					out = append(out, space.Variant(c, true, false, "names"))
				}
				if tier == "thorough" || j == (i+2)%np {
					if sc := space.Split(c); sc != nil {
						out = append(out, sc)
					}
				}
			}
		}
	}
	// multi-file packages: the non-root messages live in an imported file of the same package
	for _, c := range []*space.Case{space.F4()[0], space.F5()[0], space.F4()[4]} {
		if sc := space.Split(c); sc != nil {
			out = append(out, sc)
		}
	}
	{
		// the nested message types are selected types too; options are keyed by the paths of their occurrences
		nr := space.F5()[0]
		nr.Cfg.Types = append(append([]string{}, nr.Cfg.Types...), "Shared", "Tiny", "Deep")
		nr.Cfg.Exclude = []string{"Alpha.Meta.Label", "Beta.ByKey.Tiny", "Gamma.Deep.Tags"}
		nr.Cfg.NameOverrides = map[string]string{"Beta.Meta.ID": "beta_meta_id", "Alpha.Items.Tiny.N": "alpha_item_n", "Delta.Nested.Meta.Tiny.On": "deep_on"}
		nr.Label = "F5/nested-types-selected|path-options"
		out = append(out, nr)
	}
	// recursive message graph cut by exclude_fields (README: the way to handle it)
	node := &dsl.Message{Name: "Node", Fields: []*dsl.Field{
		{Name: "Next", Num: 1, T: dsl.Msg, Ref: "Node"},
		{Name: "Kids", Num: 2, T: dsl.Msg, Ref: "Node", Card: dsl.Repeated},
		{Name: "V", Num: 3, T: dsl.String},
		{Name: "L", Num: 4, T: dsl.Msg, Ref: "Leaf"},
		{Name: "Peer", Num: 5, T: dsl.Msg, Ref: "Other"},
	}}
	other := &dsl.Message{Name: "Other", Fields: []*dsl.Field{{Name: "Back", Num: 1, T: dsl.Msg, Ref: "Node"}, {Name: "O", Num: 2, T: dsl.Int32}}}
	rc := space.BaseConfig("Node")
	rc.Exclude = []string{"Node.Next", "Node.Kids", "Other.Back"}
	out = append(out, &space.Case{Label: "FR/recursive-cut", Family: "FR", Tags: map[string]string{"class": "recursive", "card": "mixed", "vt": "recursive", "pos": "deep"}, File: space.Close(&dsl.File{GettersOff: true, Messages: []*dsl.Message{node, other}}), Cfg: rc})
	return out
}

func injectedCases() []*space.Case {
	var out []*space.Case
	st := "github.com/hashicorp/terraform-plugin-framework/types.StringType"
	for _, b := range c10Bases() {
		if b.name == "oneofs" {
			continue
		}
		f, c := b.mk()
		c.Injected = map[string][]dsl.Injected{}
		for _, r := range c.Types {
			c.Injected[r] = []dsl.Injected{{Name: "id", Type: st, Computed: true}}
			if s, err := dsl.BuildSpec(f, c, r); err == nil {
				n := 0
				for _, a := range s.Attrs {
					if a.Msg != nil && len(a.Embed) == 0 && a.Oneof == "" && n < 6 {
						c.Injected[a.Path] = []dsl.Injected{{Name: "inj_" + a.Name, Type: st, Optional: true}}
						n++
					}
				}
			}
		}
		out = append(out, &space.Case{Label: "FI/injected/" + b.name, Family: "FI", Tags: map[string]string{"class": "injected", "card": "mixed", "vt": b.name, "pos": "deep"}, File: f, Cfg: c})
	}
	return out
}

// oneofCases: every case whose selected root contains a oneof somewhere.
func oneofCases(tier string) []*space.Case {
	var out []*space.Case
	for _, c := range shapeCases(tier) {
		if hasOneofMsg(c) {
			out = append(out, c)
		}
	}
	return out
}

func hasOneofMsg(c *space.Case) bool {
	for _, m := range c.File.Messages {
		if len(m.Oneofs) > 0 {
			return true
		}
	}
	return false
}

// c02Cases adds naming variants (json tags, overrides by path and by Message.Field) to the shape families.
func c02Cases(tier string) []*space.Case {
	cs := shapeCases(tier)
	var out []*space.Case
	for _, c := range cs {
		out = append(out, c)
		if c.Family == "F1" || c.Family == "F4" || tier == "thorough" {
			out = append(out, space.Variant(c, false, false, "names"))
			out = append(out, space.Variant(c, true, false, "typenames"))
			if c.Family != "F1" {
				out = append(out, space.Variant(c, false, false, "bothnames"))
			}
		}
	}
	return out
}

func runCheck(id, tier string, seed int) int {
	r := newRun(id, tier, seed)
	r.Assumptions = []string{
		"protoc-gen-gogo v1.3.2 output defines the struct layout; terraform-plugin-framework v0.10.0 defines schema types and decoding",
		"the descriptor renderer internal/dsl produces what protoc would for the grammar of DESIGN.md §3",
	}
	switch id {
	case "C01":
		return checkC01(r)
	case "C12":
		return checkC12(r)
	case "C18":
		return checkC18(r)
	case "C16":
		return checkC16(r)
	case "C15":
		return checkC15(r)
	case "C14":
		return checkC14(r)
	case "C11":
		return checkC11(r)
	case "C13":
		return checkC13(r)
	case "C02":
		r.Rule = "static: run-time schema type tree vs the documented table applied to the grammar term; dynamic: for every scalar leaf position of two bases, every alternative value: SetS;EmptyO;To and FreshS;From must change exactly the predicted attribute / field; distinct = distinct probes"
		return kCheck(r, c02Cases(tier), "C02", 1500)
	case "C05":
		r.Rule = "every object of the enumerated alphabet (framework-decoded; nulls/unknowns anywhere) x payload placements under null/unknown nodes x prior target contents (fresh, dirty variants, prior decodes); oracle: zero-reset per attribute + equality of the described result across prefixes/payloads + untouched undescribed fields"
		return kCheck(r, shapeCases(tier), "C05", 1500)
	case "C06":
		r.Rule = "fault enumeration: every set of at most k corruptions (delete / mistype / nil interface / nil container, at any depth incl. elements) of the fully known object, plus the two extremes, through CopyFrom; every set of at most k removed AttrTypes entries at any object level through CopyTo; oracle: predicted (path, kind) diagnostic set, no panic, untouched rest"
		return kCheck(r, shapeCases(tier), "C06", 1500)
	case "C07":
		r.Rule = "From: every admissible object (<=1 known branch per group) x prior holders; To: every struct value of the alphabet into an empty target; oracle: exclusive-branch table per oneof group at every message occurrence"
		return kCheck(r, oneofCases(tier), "C07", 1500)
	case "C08":
		r.Rule = "every admissible plan object of the alphabet, path SetO(plan);FreshS;From;To(into the plan);FreshS;From; oracle: path-wise comparison of the echoed object with the plan + re-decode equality"
		return kCheck(r, shapeCases(tier), "C08", 1500)
	case "C09":
		r.Rule = "breadth-first search over sequences of CopyTo calls on one object (sources from the struct alphabet), states deduplicated on the canonical object; oracle on every transition: follow-source table vs a fresh rendering + idempotence"
		return kCheck(r, shapeCases(tier), "C09", 1500)
	case "C10":
		r.Rule = "one generated package per configuration (flag subsets rotating over all fields by either key form, validator/plan-modifier lists of length 0-2 x UseStateForUnknown default, injected fields on root and nested paths, comment forms rotating over all field positions); oracle: the run-time tfsdk.Schema walked against the spec computed from the grammar and configuration terms"
		return kCheck(r, c10Cases(tier), "C10", 900)
	case "C17":
		r.Rule = "custom shapes (proto option and configuration entry; single, repeated, map, message) x positions P0-P4 x suffix source; per case: the GenSchema call log against the spec, and for every object / struct value within one deviation of the bases the CopyFrom / CopyTo hook call log (count, suffix, arguments, field address, stored return value), into an empty target and in place"
		r.CompileFailKind = "hooks-not-called-by-their-documented-names"
		return kCheck(r, c17Cases(tier), "C17", 900)
	case "C19":
		r.Rule = "every scalar-like leaf position (single, list element, map value, oneof branch, cast) x the full boundary set of its Go type, path SetS;EmptyO;To;FreshS;From compared exactly; plus a seeded random supplement (sampling, outcomes random/*)"
		cs := space.F1("X")
		cs = append(cs, space.F4()...)
		if tier == "thorough" {
			cs = append(cs, space.F2(space.Representatives(), false)...)
		}
		return kCheck(r, cs, "C19", 1500)
	case "C03":
		r.Rule = "every struct value of the enumerated alphabet (full product for small shapes, deviation-bounded around three bases otherwise) x path SetS;EmptyO;To; distinct = distinct canonical struct values"
		return kCheck(r, shapeCases(tier), "C03", 1500)
	case "C04":
		r.Rule = "every struct value of the enumerated alphabet x path SetS;EmptyO;To;FreshS;From compared in normal form; distinct = distinct canonical struct values"
		return kCheck(r, shapeCases(tier), "C04", 1500)
	case "C20":
		r.Rule = "every struct value of the enumerated alphabet x path SetS;EmptyO;To; null-ness of every non-element attribute compared with the absence table; distinct = distinct canonical struct values"
		return kCheck(r, shapeCases(tier), "C20", 1500)
	}
	fmt.Fprintln(os.Stderr, "unknown property", id)
	return 2
}

// runReplay re-executes one recorded violation: the property's procedure is
// run again on /repo's working tree, restricted to the recorded case where the
// check is case-based, and the recorded (kind, shape) is looked for.
func runReplay(path string) int {
	b, err := os.ReadFile(path)
	if err != nil {
		fmt.Fprintln(os.Stderr, err)
		return 2
	}
	var rf struct {
		Property, Kind, Shape, Label, Tier string
	}
	if err := json.Unmarshal(b, &rf); err != nil {
		fmt.Fprintln(os.Stderr, err)
		return 2
	}
	tmp, _ := os.MkdirTemp("", "pgtmc-replay-")
	defer os.RemoveAll(tmp)
	replayMode = &replayTarget{kind: rf.Kind, shape: rf.Shape, label: rf.Label, dir: tmp}
	tier := rf.Tier
	if tier == "" {
		tier = "quick"
	}
	runCheck(rf.Property, tier, 0)
	if replayMode.hit {
		fmt.Printf("REPRODUCED property=%s kind=%s shape=%s case=%s\n", rf.Property, rf.Kind, rf.Shape, rf.Label)
		return 1
	}
	fmt.Printf("NOT-REPRODUCED property=%s kind=%s shape=%s\n", rf.Property, rf.Kind, rf.Shape)
	return 0
}

type replayTarget struct {
	kind, shape, label, dir string
	hit                     bool
}

var replayMode *replayTarget
