package main

import (
	"bytes"
	"fmt"
	"go/parser"
	"go/token"
	"os"
	"path/filepath"
	"regexp"
	"strings"

	"verif/internal/gen"
	"verif/internal/scratch"
	"verif/internal/space"
)

func c01Cases(tier string) []*space.Case {
	var base []*space.Case
	if tier == "thorough" {
		base = append(base, space.F1("X", "my_field")...)
		base = append(base, space.F2(space.Representatives(), false)...)
		base = append(base, space.F3(space.PairRepresentatives())...)
		base = append(base, space.F2([][2]string{{"string", "single"}, {"string", "repeated"}, {"string", "map"}, {"msgNullable", "single"}, {"msgNonNull", "repeated"}, {"string", "oneof"}, {"msgNullable", "oneof"}, {"customBool", "single"}}, true)...)
	} else {
		base = append(base, space.F2Sample(space.Representatives())...)
		base = append(base, space.F1("X")...)
		base = append(base, space.F2(space.Representatives(), false)...)
	}
	base = append(base, space.F4()...)
	base = append(base, space.F5()...)
	// the configured, injected and all-excluded families the converter checks run on
	have := map[string]bool{}
	for _, c := range base {
		have[c.Label] = true
	}
	for _, c := range append(configuredCases(tier), injectedCases()...) {
		if !have[c.Label] {
			have[c.Label] = true
			base = append(base, c)
		}
	}
	for _, rev := range []bool{false, true} {
		base = append(base, &space.Case{Label: fmt.Sprintf("F5/names/reversed=%v", rev), Family: "F5", Tags: map[string]string{"class": "multiroot", "card": "mixed", "vt": "names", "pos": "deep"}, File: c12NamesFile(rev), Cfg: space.BaseConfig(c12NamesRoots...)})
	}
	type v struct {
		sort, sep bool
		mix       string
	}
	var vs []v
	if tier == "thorough" {
		for _, s := range []bool{false, true} {
			for _, p := range []bool{false, true} {
				for _, m := range []string{"none", "flags", "names"} {
					vs = append(vs, v{s, p, m})
				}
			}
		}
	} else {
		// pairwise cover of (sort, layout, mix)
		vs = []v{{false, false, "none"}, {true, true, "flags"}, {false, true, "names"}, {true, false, "names"}, {true, true, "none"}, {false, false, "flags"}}
	}
	var out []*space.Case
	// go_package option: import path, and import path with an explicit package name
	for i, c := range base {
		if c.Family == "F1" && i%9 != 0 && tier != "thorough" {
			continue
		}
		for gi, gp := range []string{"example.com/acme/apitypes", "example.com/acme/api/types;apitypes", "example.com/acme/api_types", "", ""} {
			// 2: a struct package name with an underscore, generated into a separate target package;
			// 3, 4: a dotted proto package (protoc-gen-gogo names the Go package c0001_v1), both layouts
			v := space.Variant(c, gi == 1, gi == 2 || gi == 3, "none")
			v.File.GoPackage = gp
			if gi >= 3 {
				v.ProtoPkgSuffix = ".v1"
			}
			v.Label += fmt.Sprintf("|go_package=%d", gi)
			v.Tags["go_package"] = fmt.Sprint(gi)
			out = append(out, v)
		}
	}
	for _, c := range base {
		for _, x := range vs {
			if c.Family != "F1" && tier != "thorough" && !(x.mix == "none" || (x.sort && x.sep)) {
				continue
			}
			out = append(out, space.Variant(c, x.sort, x.sep, x.mix))
		}
	}
	return out
}

var goPkgClause = regexp.MustCompile(`(?m)^package (\w+)`)

func caseShape(c *space.Case) string {
	s := "case:" + c.Tags["class"] + "/" + c.Tags["card"] + "/" + c.Tags["vt"] + "@" + c.Tags["pos"]
	return s
}

// absoluteResponseChecks evaluates the response-shape clauses of C01 on one execution.
func absoluteResponseChecks(r *Run, b *scratch.Built, license []byte) {
	c := b.Case
	add := func(kind, msg string) {
		r.addFinding(&Finding{Property: r.ID, Kind: kind, Shape: caseShape(c), Label: c.Label, Msg: msg, Count: 1, Witness: witnessOf(b)})
	}
	tf := b.TF
	if tf == nil {
		return
	}
	r.Transitions++
	if tf.ExitCode != 0 {
		add("nonzero-exit", fmt.Sprintf("plugin exits with %d: %s", tf.ExitCode, lastLines(tf.Stderr, 3)))
		return
	}
	if tf.Resp == nil {
		add("stdout-not-a-response", "stdout does not decode as a CodeGeneratorResponse: "+tf.DecodeErr)
		return
	}
	if !tf.Clean {
		add("stray-stdout", "stdout holds more than one serialized response")
	}
	if tf.Resp.Error != nil {
		add("response-error", "response carries an error: "+tf.Resp.GetError())
		return
	}
	if tf.Resp.GetSupportedFeatures()&1 == 0 {
		add("no-proto3-optional", "response does not advertise FEATURE_PROTO3_OPTIONAL")
	}
	if len(tf.Resp.File) != 1 {
		add("file-count", fmt.Sprintf("response holds %d files", len(tf.Resp.File)))
		return
	}
	// named after the proto file (in the directory protoc-gen-gogo itself uses when go_package carries an import path)
	wantName := strings.TrimSuffix(c.File.Name, ".proto") + "_terraform.go"
	if b.Gogo != nil && b.Gogo.Resp != nil && len(b.Gogo.Resp.File) == 1 {
		wantName = strings.TrimSuffix(b.Gogo.Resp.File[0].GetName(), ".pb.go") + "_terraform.go"
	}
	if got := tf.Resp.File[0].GetName(); got != wantName {
		add("file-name", fmt.Sprintf("file is named %q, want %q", got, wantName))
	}
	src := tf.Content()
	if !bytes.HasPrefix([]byte(src), license) {
		add("no-license", "file does not start with the license header")
	}
	fset := token.NewFileSet()
	af, err := parser.ParseFile(fset, "x.go", src, parser.ParseComments)
	if err != nil {
		add("does-not-parse", "generated file does not parse: "+err.Error())
		return
	}
	wantPkg := c.File.Pkg
	if b.Gogo != nil {
		if m := goPkgClause.FindStringSubmatch(b.Gogo.Content()); m != nil {
			wantPkg = m[1] // the proto's own Go package, as protoc-gen-gogo names it
		}
	}
	if c.Cfg.TargetPkg != "" {
		wantPkg = c.Cfg.TargetPkg
	}
	if af.Name.Name != wantPkg {
		add("package-clause", fmt.Sprintf("package clause is %q, want %q", af.Name.Name, wantPkg))
	}
	// exactly the three functions per selected type
	want := map[string]bool{}
	for _, t := range c.Cfg.Types {
		if _, bad := b.Unmapped[t]; bad {
			continue
		}
		want["GenSchema"+t] = true
		want["Copy"+t+"FromTerraform"] = true
		want["Copy"+t+"ToTerraform"] = true
	}
	got := map[string]bool{}
	for _, f := range scratch.TopFuncs(src) {
		got[f] = true
	}
	for f := range want {
		if !got[f] {
			add("missing-function", "function "+f+" is not defined")
		}
	}
	for f := range got {
		if !want[f] {
			add("extra-function", "unexpected function "+f)
		}
	}
}

func lastLines(s string, n int) string {
	ls := strings.Split(strings.TrimSpace(s), "\n")
	if len(ls) > n {
		ls = ls[len(ls)-n:]
	}
	return strings.Join(ls, " | ")
}

func witnessOf(b *scratch.Built) interface{} {
	return map[string]interface{}{
		"kind":   "request",
		"label":  b.Label,
		"proto":  b.File.ProtoText(),
		"config": b.YAML,
		"param":  b.Param,
	}
}

func checkC01(r *Run) int {
	r.Rule = "one plugin execution per (descriptor of the enumerated families x sort x package layout x option mix); oracle: response shape, go/parser view, and the Go type checker on plugin output + protoc-gen-gogo output with typed signature pins; distinct = distinct requests"
	if err := r.prepare(); err != nil {
		fmt.Fprintln(os.Stderr, err)
		return 2
	}
	defer r.Mod.Cleanup()
	license, err := os.ReadFile(filepath.Join(gen.Repo, "license.txt"))
	if err != nil {
		fmt.Fprintln(os.Stderr, err)
		return 2
	}
	cases := c01Cases(r.Tier)
	space.SortCases(cases)
	built := r.Mod.Generate(cases)
	r.phase("generate")
	if os.Getenv("VERIF_DEBUG") != "" {
		var g, t int64
		for _, b := range built {
			g += b.GogoMs
			t += b.TFMs
			if b.TFMs > 300 {
				fmt.Println("slow tf", b.Label, b.TFMs)
			}
		}
		fmt.Println("total gogo ms", g, "tf ms", t)
	}
	n := 0
	for _, b := range built {
		if b.Gogo != nil && b.Skip != "" && b.TF == nil {
			r.Skipped = append(r.Skipped, b.Label+": "+b.Skip)
			continue
		}
		n++
		absoluteResponseChecks(r, b, license)
		if len(r.Samples) < 4 {
			r.Samples = append(r.Samples, map[string]interface{}{"case": b.Label, "param": b.Param, "functions": scratch.TopFuncs(b.TF.Content())})
		}
	}
	if _, err := r.Mod.Build(nil); err != nil {
		// the scratch module only holds generated code and fixed support files: a build failure
		// that cannot be attributed to a case is still generated code that does not compile
		r.addFinding(&Finding{Property: r.ID, Kind: "does-not-compile", Shape: "unattributed", Label: "scratch module", Msg: firstLines(err.Error(), 12), Count: 1, Witness: map[string]interface{}{"kind": "build-log"}})
	}
	r.phase("compile")
	for _, b := range built {
		if b.CompileErr != "" {
			r.Transitions++
			r.addFinding(&Finding{Property: r.ID, Kind: "does-not-compile", Shape: caseShape(b.Case), Label: b.Label, Msg: "generated code does not compile with protoc-gen-gogo's output:\n" + firstLines(b.CompileErr, 6), Count: 1, Witness: witnessOf(b)})
		} else if b.Skip == "" {
			r.Transitions++
			r.Outcomes["compiles"]++
		}
	}
	r.States, r.Evals, r.Nontrivial = n, n, n
	return r.finish()
}
