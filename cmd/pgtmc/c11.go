package main

import (
	"fmt"
	"os"
	"sort"
	"strings"

	"verif/explorer"
	"verif/internal/dsl"
	"verif/internal/space"
	"verif/spec"
)

var c11Kinds = []string{"exclude_fields", "required_fields", "computed_fields", "sensitive_fields", "name_overrides", "validators", "plan_modifiers"}

func applyOption(c *dsl.Config, kind, key string) {
	switch kind {
	case "exclude_fields":
		c.Exclude = append(c.Exclude, key)
	case "required_fields":
		c.Required = append(c.Required, key)
	case "computed_fields":
		c.Computed = append(c.Computed, key)
	case "sensitive_fields":
		c.Sensitive = append(c.Sensitive, key)
	case "name_overrides":
		c.NameOverrides = map[string]string{key: "renamed_by_option"}
	case "validators":
		c.Validators = map[string][]string{key: {dsl.TFX + ".V(11)", dsl.TFX + ".V(12)"}}
	case "plan_modifiers":
		c.PlanModifiers = map[string][]string{key: {dsl.TFX + ".PM(11)"}}
	}
}

// specLines renders a spec as per-attribute lines keyed by Terraform path (for the expected-difference computation).
func specLines(m *spec.Msg, path string, out map[string]string) {
	for _, a := range m.Attrs {
		p := a.Name
		if path != "" {
			p = path + "." + a.Name
		}
		out[p] = fmt.Sprintf("req=%v comp=%v sens=%v val=%v pm=%v", a.Required, a.Computed, a.Sensitive, a.Validators, a.PlanModifiers)
		if a.Msg != nil {
			specLines(a.Msg, p, out)
		}
	}
}

func schemaLines(d string) map[string]string {
	out := map[string]string{}
	for _, l := range strings.Split(d, "\n") {
		if i := strings.Index(l, " => "); i > 0 {
			// keep flags and lists only (types/descriptions do not change with these options)
			rest := l[i+4:]
			j := strings.Index(rest, "req=")
			k := strings.Index(rest, " desc=")
			m := strings.Index(rest, " val=")
			if j >= 0 && k > j && m > k {
				out[l[:i]] = rest[j:k] + rest[m:]
			}
		}
	}
	return out
}

func diffSet(a, b map[string]string) []string {
	set := map[string]bool{}
	for k, v := range a {
		if w, ok := b[k]; !ok || w != v {
			set[k] = true
		}
	}
	for k := range b {
		if _, ok := a[k]; !ok {
			set[k] = true
		}
	}
	var out []string
	for k := range set {
		out = append(out, k)
	}
	sort.Strings(out)
	return out
}

func checkC11(r *Run) int {
	r.Rule = "one generated package per (field-addressed option kind x addressed occurrence by full path, or field by Message.Field) on the multi-root file in which message Shared occurs at 9 paths; oracle: (absolute) schema, flags, names and converter probes of the variant against the spec computed for the optioned configuration; (differential) the set of schema attribute paths that differ from the un-optioned build equals the set the key form designates; excluded fields are neither emitted nor written"
	if err := r.prepare(); err != nil {
		fmt.Fprintln(os.Stderr, err)
		return 2
	}
	defer r.Mod.Cleanup()
	base := space.F5()[0]
	paths := space.AllPaths(base.File, base.Cfg)
	tkeys := space.AllTypeKeys(base.File, base.Cfg)
	pick := func(keys []string) []string {
		if r.Tier == "thorough" {
			return keys
		}
		var out []string
		for _, k := range keys {
			// quick: the fields of the shared messages and one plain field per root
			if strings.Contains(k, "Shared") || strings.Contains(k, "Tiny") || strings.Contains(k, "Limits") || strings.HasSuffix(k, ".Hard") || strings.Contains(k, "Stamp") || strings.HasSuffix(k, ".Rev") || strings.HasSuffix(k, ".Who") || strings.HasSuffix(k, ".ID") || strings.HasSuffix(k, ".Label") || strings.HasSuffix(k, ".On") || k == "Alpha.Name" || k == "Beta.Count" || k == "Gamma.KT" || k == "Delta.Only" || strings.HasSuffix(k, ".Meta") {
				out = append(out, k)
			}
		}
		return out
	}
	var cases []*space.Case
	mk := func(kind, form, key string) {
		c := space.F5()[0]
		applyOption(c.Cfg, kind, key)
		c.Label = fmt.Sprintf("C11/%s/%s/%s", kind, form, key)
		c.Group = "f5"
		c.Variant = kind + "|" + form + "|" + key
		c.Tags = map[string]string{"class": "config", "card": kind, "vt": form, "pos": key}
		cases = append(cases, c)
	}
	b := space.F5()[0]
	b.Label, b.Group, b.Variant = "C11/base", "f5", "base"
	b.Tags = map[string]string{"class": "config", "card": "none", "vt": "base", "pos": ""}
	cases = append(cases, b)
	for _, kind := range c11Kinds {
		for _, p := range pick(paths) {
			mk(kind, "path", p)
		}
		for _, k := range pick(tkeys) {
			mk(kind, "typekey", k)
		}
	}
	// both key forms for the same field with different values: the full path is the more specific key
	// and wins for names and lists; flags are the union (DESIGN.md §4 C11)
	for i, nested := range []string{"Alpha.Meta.ID", "Beta.ByKey.Label", "Gamma.Deep.Inner.Tiny.N", "Alpha.Items.Tiny.On"} {
		parts := strings.Split(nested, ".")
		leaf := parts[len(parts)-1]
		owner := map[string]string{"ID": "Shared", "Label": "Shared", "N": "Tiny", "On": "Tiny"}[leaf]
		tk := owner + "." + leaf
		c := space.F5()[0]
		c.Cfg.NameOverrides = map[string]string{nested: "by_path", tk: "by_type"}
		c.Cfg.Validators = map[string][]string{nested: {dsl.TFX + ".V(21)"}, tk: {dsl.TFX + ".V(22)", dsl.TFX + ".V(23)"}}
		c.Cfg.PlanModifiers = map[string][]string{nested: {dsl.TFX + ".PM(21)"}, tk: {dsl.TFX + ".PM(22)"}}
		c.Cfg.Computed = []string{tk}
		c.Cfg.Sensitive = []string{nested}
		c.Label = fmt.Sprintf("C11/both-keys/%d/%s", i, nested)
		c.Group, c.Variant = "f5", "both-keys|"+nested
		c.Tags = map[string]string{"class": "config", "card": "both-keys", "vt": "both", "pos": nested}
		cases = append(cases, c)
	}
	// sibling fields one of whose names is a string prefix of the other's (Name / Namespace, ID / IDs):
	// one is excluded, the other carries options of every kind, in both key forms and both directions
	for i, pr := range [][2]string{{"Alpha.Name", "Alpha.Namespace"}, {"Shared.ID", "Shared.IDs"}, {"Alpha.Meta.ID", "Alpha.Meta.IDs"}, {"Beta.ByKey.ID", "Beta.ByKey.IDs"}} {
		for dir := 0; dir < 2; dir++ {
			excl, opt := pr[dir], pr[1-dir]
			c := space.F5()[0]
			c.Cfg.Exclude = []string{excl}
			c.Cfg.Required = []string{opt}
			c.Cfg.Sensitive = []string{opt}
			c.Cfg.NameOverrides = map[string]string{opt: "kept_sibling"}
			c.Cfg.Validators = map[string][]string{opt: {dsl.TFX + ".V(31)"}}
			c.Cfg.PlanModifiers = map[string][]string{opt: {dsl.TFX + ".PM(31)"}}
			c.Label = fmt.Sprintf("C11/prefix-siblings/%d/exclude=%s/options=%s", i, excl, opt)
			c.Group, c.Variant = "f5", "prefix-siblings|"+excl+"|"+opt
			c.Tags = map[string]string{"class": "config", "card": "prefix-siblings", "vt": map[int]string{0: "shorter-excluded", 1: "longer-excluded"}[dir], "pos": opt}
			cases = append(cases, c)
		}
	}
	built, bin, err := r.generate(cases)
	if err != nil {
		fmt.Fprintln(os.Stderr, err)
		return 2
	}
	r.phase("generate+build")
	lines, errs := r.Mod.RunHarness(bin, 16, []string{"--prop", "C11", "--tier", r.Tier}, 1200)
	r.HarnessErrs = append(r.HarnessErrs, errs...)
	res := r.absorb(lines)
	r.phase("explore")
	// differential: schema differences vs the un-optioned build are exactly the designated occurrences
	byLabel := map[string]*space.Case{}
	for _, bb := range built {
		byLabel[bb.Label] = bb.Case
	}
	baseDigest := map[string]map[string]string{}
	for _, x := range res {
		if x.Variant == "base" && x.Digests != nil {
			baseDigest[x.Root] = schemaLines(x.Digests["schema"])
		}
	}
	for _, x := range res {
		if x.Variant == "base" || x.Digests == nil {
			continue
		}
		c := byLabel[x.Label]
		bd, ok := baseDigest[x.Root]
		if !ok || c == nil {
			continue
		}
		got := diffSet(bd, schemaLines(x.Digests["schema"]))
		sb, err1 := dsl.BuildSpec(b.File, b.Cfg, x.Root)
		sv, err2 := dsl.BuildSpec(c.File, c.Cfg, x.Root)
		if err1 != nil || err2 != nil {
			continue
		}
		lb, lv := map[string]string{}, map[string]string{}
		specLines(sb, "", lb)
		specLines(sv, "", lv)
		want := diffSet(lb, lv)
		if strings.Join(got, ",") != strings.Join(want, ",") {
			r.Outcomes["not-surgical"]++
			r.addFinding(&Finding{Property: r.ID, Kind: "option-not-surgical", Shape: c.Tags["card"] + "/" + c.Tags["vt"], Label: x.Label, Root: x.Root, Count: 1,
				Msg:     fmt.Sprintf("option %s changes schema attributes %v of %s relative to the un-optioned build; the key designates %v", x.Variant, got, x.Root, want),
				Witness: map[string]interface{}{"kind": "variant-pair", "reference": "C11/base", "variant": x.Label, "config": c.Cfg.YAML(nil, nil)}})
		} else {
			r.Outcomes[fmt.Sprintf("surgical/%d-occurrences", len(want))]++
		}
	}
	return r.finish()
}

var _ = explorer.CanonS
