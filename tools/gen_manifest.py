#!/usr/bin/env python3
"""Writes MANIFEST.json from the table below (kept in one place so the manifest stays valid)."""
import json, subprocess

BASE = json.load(open('/root/.vp/BASELINE.json')) if False else None

CHECKS = {
 "C01": ("G: stateless exploration of plugin executions over (descriptor families x sort x layout x option mix); oracle: response shape, go/parser, Go type checker with signature pins", "4.C01"),
 "C02": ("G+K: schema type tree vs documented table from the grammar term; exhaustive single-leaf probing through CopyTo/CopyFrom", "4.C02"),
 "C03": ("K: explicit-state exploration of SetS;EmptyO;To over the enumerated struct alphabet; schema-conformance oracle", "4.C03"),
 "C04": ("K: explicit-state exploration of SetS;EmptyO;To;FreshS;From; normal-form equality oracle", "4.C04"),
 "C05": ("K: exploration of histories prefix;SetO;[Payload];From over object alphabet x payload placements x prior targets; zero-reset + differential oracle", "4.C05"),
 "C06": ("K: fault enumeration - all corruption sets up to size k in both directions; predicted diagnostic set oracle", "4.C06"),
 "C07": ("K: exploration of admissible objects x prior holders (From) and struct alphabet (To); exclusive-branch oracle", "4.C07"),
 "C08": ("K: exploration of admissible plans through SetO;From;To(in place);From; path-wise echo oracle", "4.C08"),
 "C09": ("K: breadth-first search over CopyTo call sequences on one object with canonical-state deduplication; follow-source + idempotence oracle", "4.C09"),
 "C10": ("G+K: configurations enumerated as generated packages; run-time schema walked against the spec", "4.C10"),
 "C11": ("G+K: one generated package per (option kind x occurrence x key form); absolute spec oracle + schema differential vs the un-optioned build", "4.C11"),
 "C12": ("G: all type subsets x sort x request extensions; per-function text differential", "4.C12"),
 "C13": ("G+K: same vs separate package layouts compiled side by side; behaviour digests over the K alphabets", "4.C13"),
 "C14": ("G: map-iteration schedules on a runtime-overlay build of the plugin (all single deviations; pairs in thorough) + all entry-order permutations; response hash oracle", "4.C14"),
 "C15": ("G+K: all permutations of message items / block members / messages; byte identity (sort) and behaviour digests (no sort)", "4.C15"),
 "C16": ("G: channel assignments within k deviations of all-YAML / all-parameter + negative cases; response bytes differential", "4.C16"),
 "C17": ("G+K: custom shapes x positions x suffix sources; hook call-log oracle over object / struct alphabets", "4.C17"),
 "C18": ("G: unmappable kind x position chain x exclusion form x other roots; negative + differential + schema walk", "4.C18"),
 "C19": ("K: every scalar-like leaf position x full boundary set, exact round trip (seeded random supplement reported as sampling)", "4.C19"),
 "C20": ("K: explicit-state exploration of SetS;EmptyO;To; null<=>absence table oracle derived from the grammar term", "4.C20"),
}
NA = {}
ALL = ["C%02d" % i for i in range(1, 21)]

def main():
    checks = []
    for pid in ALL:
        if pid not in CHECKS:
            continue
        tech, ref = CHECKS[pid]
        checks.append({
            "property_id": pid,
            "quick_cmd": "bin/pgtmc check %s --tier quick" % pid,
            "thorough_cmd": "bin/pgtmc check %s --tier thorough" % pid,
            "evidence_file": "/verif/evidence/%s.json" % pid,
            "replay_cmd_template": "bin/pgtmc replay {path}",
            "engine": "pgtmc",
            "level_claimed": {
                "category": "model_checking",
                "text": "Bounded exhaustive exploration of the real plugin binary (rebuilt from /repo's working tree) and of the real code it generates, compiled against protoc-gen-gogo's real output and the real terraform-plugin-framework: every descriptor of the enumerated families, every value/plan/corruption within the stated deviation bound, every operation sequence up to the stated depth; oracle derived from the grammar term, not from the plugin.",
                "design_ref": "DESIGN.md §" + ref,
            },
            "level_note": "Trusted base: Go toolchain, protoc-gen-gogo v1.3.2, terraform-plugin-framework v0.10.0, the descriptor renderer internal/dsl. Coverage is bounded (families, deviation bound k, depth n as reported in the evidence file).",
            "technique": "model checking: " + tech,
        })
    na = [{"property_id": p, "reason": NA.get(p, "check not built yet in this revision (work in progress; see DESIGN.md §10 construction order)")} for p in ALL if p not in CHECKS]
    m = {
        "version": 1,
        "setup_cmd": "cd /verif && GOFLAGS=-mod=mod GOPROXY=off GOSUMDB=off GOTOOLCHAIN=local go build -o bin/pgtmc ./cmd/pgtmc && bin/pgtmc setup",
        "hooks": {
            "guard": "verif",
            "enable": "go build -tags verif (the tag is reserved; no hook commits exist, the checks drive the unmodified plugin binary and its generated code)",
            "baseline_off_cmd": "cd /repo && go test -vet=off -count=1 -timeout 25m ./...",
            "source_commits": [],
            "add_only": True,
        },
        "engines": [{
            "name": "pgtmc",
            "path": "cmd/pgtmc",
            "serves_properties": sorted(CHECKS),
            "kind_free_text": "hand-written bounded exhaustive explorers: G (stateless exploration of plugin process executions over descriptor/config/channel/order/map-iteration-schedule spaces) and K (explicit-state, deviation-bounded exploration of the generated CopyTo/CopyFrom on real values)",
        }],
        "checks": checks,
        "not_applicable": na,
        "notes": "All checks rebuild the plugin from /repo's working tree on every run and create their scratch module under $TMPDIR, removed on exit.",
    }
    json.dump(m, open('/verif/MANIFEST.json', 'w'), indent=1)
    print("wrote MANIFEST.json with", len(checks), "checks")

main()
