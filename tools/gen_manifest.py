#!/usr/bin/env python3
"""Writes MANIFEST.json from the table below (kept in one place so the manifest stays valid)."""
import json, subprocess

BASE = json.load(open('/root/.vp/BASELINE.json')) if False else None

CHECKS = {
 "C03": ("K: explicit-state exploration of SetS;EmptyO;To over the enumerated struct alphabet; schema-conformance oracle", "4.C03"),
 "C04": ("K: explicit-state exploration of SetS;EmptyO;To;FreshS;From; normal-form equality oracle", "4.C04"),
 "C20": ("K: explicit-state exploration of SetS;EmptyO;To; null<=>absence table oracle derived from the grammar term", "4.C20"),
}
NA = {}
ALL = ["C%02d" % i for i in range(1, 21)]

def main():
    checks = []
    for pid in ALL:
        if pid not in CHECKS:
            continue
        tech, ref = CHECKS[pid]
        checks.append({
            "property_id": pid,
            "quick_cmd": "bin/pgtmc check %s --tier quick" % pid,
            "thorough_cmd": "bin/pgtmc check %s --tier thorough" % pid,
            "evidence_file": "/verif/evidence/%s.json" % pid,
            "replay_cmd_template": "bin/pgtmc replay {path}",
            "engine": "pgtmc",
            "level_claimed": {
                "category": "model_checking",
                "text": "Bounded exhaustive exploration of the real plugin binary (rebuilt from /repo's working tree) and of the real code it generates, compiled against protoc-gen-gogo's real output and the real terraform-plugin-framework: every descriptor of the enumerated families, every value/plan/corruption within the stated deviation bound, every operation sequence up to the stated depth; oracle derived from the grammar term, not from the plugin.",
                "design_ref": "DESIGN.md §" + ref,
            },
            "level_note": "Trusted base: Go toolchain, protoc-gen-gogo v1.3.2, terraform-plugin-framework v0.10.0, the descriptor renderer internal/dsl. Coverage is bounded (families, deviation bound k, depth n as reported in the evidence file).",
            "technique": "model checking: " + tech,
        })
    na = [{"property_id": p, "reason": NA.get(p, "check not built yet in this revision (work in progress; see DESIGN.md §10 construction order)")} for p in ALL if p not in CHECKS]
    m = {
        "version": 1,
        "setup_cmd": "cd /verif && GOFLAGS=-mod=mod GOPROXY=off GOSUMDB=off GOTOOLCHAIN=local go build -o bin/pgtmc ./cmd/pgtmc && bin/pgtmc setup",
        "hooks": {
            "guard": "verif",
            "enable": "go build -tags verif (the tag is reserved; no hook commits exist, the checks drive the unmodified plugin binary and its generated code)",
            "baseline_off_cmd": "cd /repo && go test -vet=off -count=1 -timeout 25m ./...",
            "source_commits": [],
            "add_only": True,
        },
        "engines": [{
            "name": "pgtmc",
            "path": "cmd/pgtmc",
            "serves_properties": sorted(CHECKS),
            "kind_free_text": "hand-written bounded exhaustive explorers: G (stateless exploration of plugin process executions over descriptor/config/channel/order/map-iteration-schedule spaces) and K (explicit-state, deviation-bounded exploration of the generated CopyTo/CopyFrom on real values)",
        }],
        "checks": checks,
        "not_applicable": na,
        "notes": "All checks rebuild the plugin from /repo's working tree on every run and create their scratch module under $TMPDIR, removed on exit.",
    }
    json.dump(m, open('/verif/MANIFEST.json', 'w'), indent=1)
    print("wrote MANIFEST.json with", len(checks), "checks")

main()
