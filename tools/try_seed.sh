#!/bin/bash
# try_seed.sh <seed-dir> <name> <prop> [<prop>...]
# Confirms a seeded change independently in a scratch worktree (builds, repo tests pass, demo fails
# with it and passes without it), then applies it to /repo, runs the quick checks, and reverts.
set -u
export GOFLAGS=-mod=mod GOPROXY=off GOSUMDB=off GOTOOLCHAIN=local
SD=$(cd "$1" && pwd); NAME=$2; shift 2
PATCH=$SD/patch.diff
# rebuild the demonstration module from the committed copies when /tmp/seedkit is gone
if [ ! -d /tmp/seedkit/kit ]; then
  mkdir -p /tmp/seedkit/kit /tmp/seedkit/example
  cp /verif/seeded/seedkit/kit.go.txt /tmp/seedkit/kit/kit.go
  cp /verif/seeded/seedkit/example_main.go.txt /tmp/seedkit/example/main.go
  cp /verif/seeded/seedkit/README.md /tmp/seedkit/
  { echo "module seedkit"; echo; echo "go 1.18"; echo; sed -n '/^require/,$p' /repo/go.mod; } > /tmp/seedkit/go.mod
  cp /repo/go.sum /tmp/seedkit/go.sum
fi
if [ ! -d /tmp/seedkit/demo_$NAME ] && [ -f $SD/demo_main.go.txt ]; then
  mkdir -p /tmp/seedkit/demo_$NAME && cp $SD/demo_main.go.txt /tmp/seedkit/demo_$NAME/main.go
fi
WT=/tmp/seedv/$NAME
mkdir -p /tmp/seedv
rm -rf $WT; git -C /repo worktree prune; BASE=${SEED_BASE:-HEAD}   # the commit the patch was written against (meta.json: base_commit)
git -C /repo worktree add -q --detach $WT $BASE || exit 2
# later fix commits change what the checks see on the old base: prefer the current HEAD when the
# patch still applies there
if [ "$BASE" != HEAD ] && [ -z "${SEED_KEEP_BASE:-}" ]; then
  git -C /repo worktree remove --force $WT
  git -C /repo worktree add -q --detach $WT HEAD || exit 2
  if ( cd $WT && git apply --check $PATCH 2>/dev/null ); then
    echo "== patch applies at HEAD: verifying there"
  else
    git -C /repo worktree remove --force $WT
    git -C /repo worktree add -q --detach $WT $BASE || exit 2
    echo "== patch does not apply at HEAD: verifying at $BASE"
  fi
fi
echo "== verifying $NAME"
( cd $WT && git apply $PATCH ) || { echo "PATCH DOES NOT APPLY"; git -C /repo worktree remove --force $WT; exit 2; }
( cd $WT && GOFLAGS= go build ./... && GOFLAGS= go test -vet=off -count=1 ./... 2>&1 | tail -2 )
if [ -d /tmp/seedkit/demo_$NAME ]; then
  ( cd /tmp/seedkit && timeout 600 go run ./demo_$NAME $WT > /tmp/seedv/$NAME.with.log 2>&1; echo "demo with change: exit=$?" )
  ( cd $WT && git checkout -q -- . )
  ( cd /tmp/seedkit && timeout 600 go run ./demo_$NAME $WT > /tmp/seedv/$NAME.without.log 2>&1; echo "demo without change: exit=$?" )
fi
echo "== running checks on the scratch worktree with the change (VERIF_REPO; /repo is not touched)"
( cd $WT && git apply $PATCH ) || exit 2
for p in "$@"; do
  ( cd /verif && VERIF_REPO=$WT bin/pgtmc check $p --tier quick > /tmp/seedv/$NAME.$p.log 2>&1; echo "$p exit=$? $(grep -c '^violation' /tmp/seedv/$NAME.$p.log) violations; $(grep '^violation' /tmp/seedv/$NAME.$p.log | head -2 | cut -c1-260)" )
done
git -C /repo worktree remove --force $WT
