#!/usr/bin/env python3
"""Detection demonstration (DESIGN.md §8): applies each planned property-breaking change to /repo's
working tree, checks that the repository's own tests still pass, runs the quick check of every
property the change should break, and reverts. Usage: run_mutants.py [name-substring ...]"""
import json, os, subprocess, sys, time

REPO = '/tmp/mutrepo'  # a scratch worktree of /repo HEAD; /repo itself is never touched
M = []
def mut(name, file, old, new, props, count=1):
    M.append(dict(name=name, file=file, old=old, new=new, props=props, count=count))

# ---- main.go
mut('main-drop-supported-features', 'main.go', 'response.SupportedFeatures = &features', '_ = features', ['C01'])
mut('main-skip-license', 'main.go', 'return license + s, nil', 'return s, nil', ['C01'])
#equivalent: mut('main-replace-all-package-matches', 'main.go', 'return strings.Replace(s, pkg, "package "+target+"\\n", 1)', 'return strings.Replace(s, pkg, "package "+target+"\\n", -1)', ['C01'])
# ---- naming / typing
mut('name-typekey-before-path', 'field_build_context.go',
    'v, ok := c.config.NameOverrides[c.GetPath()]\n\tif !ok {\n\t\tv, ok = c.config.NameOverrides[c.GetNameWithTypeName()]\n\t}',
    'v, ok := c.config.NameOverrides[c.GetNameWithTypeName()]\n\tif !ok {\n\t\tv, ok = c.config.NameOverrides[c.GetPath()]\n\t}', ['C11', 'C02'])
mut('jsontag-last-element', 'field_descriptor_proto_ext.go', 'if j[0] != "-" {\n\t\t\treturn j[0]', 'if j[0] != "-" {\n\t\t\treturn j[len(j)-1]', ['C02', 'C01'])
#mut('uint32-through-int32', 'field_build_context.go', 't = int64Type\n\t\tt.ValueCastFromType = "uint32"\n\tcase c.field.IsTypeEq(descriptor.FieldDescriptorProto_TYPE_FIXED64)', 't = int64Type\n\t\tt.ValueCastFromType = "uint32"\n\t\tt.ValueCastToType = "int32"\n\tcase c.field.IsTypeEq(descriptor.FieldDescriptorProto_TYPE_FIXED64)', ['C19'])
mut('float-to-int64', 'field_build_context.go', 't = float64Type\n\t\tt.ValueCastFromType = "float32"', 't = int64Type\n\t\tt.ValueCastFromType = "float32"', ['C02', 'C19'])
# ---- gen_copy_to.go
mut('to-object-unknown-not-cleared', 'gen_copy_to.go', '\t} else {\n\t\tg.BlockFunc(copyObj)\n\t}\n\tg.Id("v.Unknown").Op("=").False()', '\t} else {\n\t\tg.BlockFunc(copyObj)\n\t}\n', ['C08'])
mut('to-list-no-remake-on-length-change', 'gen_copy_to.go', 'g.If(j.Len(j.Id(fieldName)).Op("!=").Len(j.Id("c.Elems"))).Block(', 'g.If(j.Len(j.Id(fieldName)).Op(">").Len(j.Id("c.Elems"))).Block(', ['C09'])
mut('to-new-object-null-by-default', 'gen_copy_to.go', 'j.Id("AttrTypes"): j.Id("o.AttrTypes"),\n\t\t}),', 'j.Id("AttrTypes"): j.Id("o.AttrTypes"),\n\t\t\tj.Id("Null"):      j.True(),\n\t\t}),', ['C20', 'C04'])
mut('to-skip-oneof-stub-for-objects', 'gen_copy_to.go', 'return f.nextField("a", func(g *j.Group) {\n\t\tif f.OneOfName != "" {\n\t\t\tf.genOneOfStub(g)\n\t\t}', 'return f.nextField("a", func(g *j.Group) {\n\t\tif f.OneOfName != "" && !f.IsMessage {\n\t\t\tf.genOneOfStub(g)\n\t\t}', ['C01'])
mut('to-null-recomputed-on-reuse', 'gen_copy_to.go', 'g.If(j.Id("!ok")).BlockFunc(f.genZeroValue(fieldName))', 'g.If(j.Id("!ok")).BlockFunc(f.genZeroValue(fieldName))\n\tif f.ZeroValue != "" && !f.ParentIsOptionalEmbed && !f.IsPlaceholder {\n\t\tg.Id("v.Null").Op("=").Id(f.i.WithType(f.ValueCastToType)).Parens(j.Id(fieldName)).Op("==").Id(f.ZeroValue)\n\t}', ['C08'])
# ---- gen_copy_from.go
mut('from-null-without-unknown', 'gen_copy_from.go', '\tg.If(j.Id("!v.Null && !v.Unknown")).BlockFunc(func(g *j.Group) {\n\t\tif !f.IsNullable {', '\tg.If(j.Id("!v.Null")).BlockFunc(func(g *j.Group) {\n\t\tif !f.IsNullable {', ['C05'])
mut('from-no-oneof-reset', 'gen_copy_from.go', '\tfor _, m := range m.OneOfNames {\n\t\tg.Add(j.Id("obj." + m).Op("=").Nil())\n\t}', '\t_ = m.OneOfNames', ['C05', 'C07'])
mut('from-plain-assertion-for-elements', 'gen_copy_from.go', '\t\t\tg.List(j.Id("v"), j.Id("ok")).Op(":=").Id("a").Assert(typ)\n\t\t\tg.If(j.Id("!ok"))', '\t\t\tg.Id("v").Op(":=").Id("a").Assert(typ)\n\t\t\tg.Id("ok").Op(":=").True()\n\t\t\tg.If(j.Id("!ok"))', ['C06'])
# ---- gen_schema.go
mut('schema-optional-always', 'gen_schema.go', '\tif f.IsRequired {\n\t\td[j.Id("Required")] = j.True()\n\t} else {\n\t\td[j.Id("Optional")] = j.True()\n\t}', '\td[j.Id("Optional")] = j.True()\n\tif f.IsRequired {\n\t\td[j.Id("Required")] = j.True()\n\t}', ['C10'])
mut('schema-drop-sensitive-on-nested', 'gen_schema.go', '\tif f.IsSensitive {', '\tif f.IsSensitive && f.Kind != ObjectKind {', ['C10'])
mut('schema-validators-for-plan-modifiers', 'gen_schema.go', 'd[j.Id("PlanModifiers")] = generatePlanModifiers(f.i, f.PlanModifiers)', 'd[j.Id("PlanModifiers")] = generatePlanModifiers(f.i, f.PlanModifiers[:1])', ['C10'])
#mut('comments-join-newline', 'comments.go', 'strings.Join(lines, " ")', 'strings.Join(lines, "\\n")', ['C10'])
# ---- option lookup
mut('flag-typename-only', 'field_build_context.go', '\t_, ok1 := f[c.GetNameWithTypeName()]\n\t_, ok2 := f[c.GetPath()]\n\n\treturn ok1 || ok2', '\t_, ok1 := f[c.GetNameWithTypeName()]\n\n\treturn ok1', ['C11'])
mut('nested-message-path-is-typename', 'field.go', 'm, err := BuildMessage(c.plugin, d, false, c.path)', 'm, err := BuildMessage(c.plugin, d, false, c.typeName)', ['C11'])
# ---- plugin.go
mut('write-ignores-isroot', 'plugin.go', '\tfor _, message := range m {\n\t\tif !message.IsRoot {\n\t\t\tcontinue\n\t\t}\n\n\t\tg := NewMessageSchemaGenerator', '\tfor _, message := range m {\n\t\tg := NewMessageSchemaGenerator', ['C12', 'C01'])
mut('build-register-before-error-check', 'field.go', '\tf.TerraformType, err = c.GetTerraformType()\n\tif err != nil {\n\t\treturn nil, trace.Wrap(err)\n\t}', '\tf.TerraformType, err = c.GetTerraformType()\n\tif err != nil {\n\t\treturn nil, nil\n\t}', ['C18'])
mut('sort-fields-by-first-letter', 'field.go', 'return fields[i].Name < fields[j].Name', 'return fields[i].Name[:1] < fields[j].Name[:1]', ['C15'])
mut('messages-sorted-unstably-by-path-length', 'plugin.go', 'return p.Messages[i].Name < p.Messages[j].Name', 'return len(p.Messages[i].Name) < len(p.Messages[j].Name)', ['C15'])
# ---- config.go
mut('yaml-wins-over-cli-for-sort', 'config.go', 'c.Sort = c.getBoolParam("sort", c.Sort)', 'c.Sort = c.Sort || c.getBoolParam("sort", false)', ['C16'])
#mut('cli-lists-split-on-comma', 'config.go', 'paramDelimiter = "+"', 'paramDelimiter = ";"', ['C16'])
mut('types-default-to-all', 'config.go', '\tif len(c.Types) == 0 {\n\t\treturn nil, trace.Errorf(', '\tif c.Types == nil {\n\t\treturn nil, trace.Errorf(', ['C16'])
# ---- custom types
mut('suffix-strip-only-dots', 'field.go', 'strings.ReplaceAll(strings.ReplaceAll(c.GetCustomType(), "/", ""), ".", "")', 'strings.ReplaceAll(strings.ReplaceAll(c.GetCustomType(), "/", "_"), ".", "")', ['C17'])
mut('custom-to-gets-type-instead-of-current', 'gen_copy_to.go', 'j.Id("diags"), j.Id("obj."+f.Name), j.Id("t"), j.Id("tf.Attrs").Index(j.Lit(f.NameSnake)),', 'j.Id("diags"), j.Id("obj."+f.Name), j.Id("t"), j.Nil(),', ['C17'])
# ---- chain of nullable embedded parents (fix ee725c5)
mut('embed-chain-only-outermost-recorded', 'field.go', '\t\t\t\t\tf.OptionalEmbedParents...,\n', '\t\t\t\t\tnil...,\n', ['C03', 'C04'])
mut('embed-chain-allocates-innermost-first', 'gen_embed_parents.go', '\tfor i, p := range f.OptionalEmbedParents {\n\t\tif i > 0 {\n\t\t\ts = s.Line()\n\t\t}', '\tfor i := range f.OptionalEmbedParents {\n\t\tp := f.OptionalEmbedParents[len(f.OptionalEmbedParents)-1-i]\n\t\tif i > 0 {\n\t\t\ts = s.Line()\n\t\t}', ['C04', 'C05'])
mut('embed-chain-exists-tests-outermost-only', 'gen_embed_parents.go', '\tfor i, p := range f.OptionalEmbedParents {\n\t\tif i > 0 {\n\t\t\ts = s.Op("&&")\n\t\t}', '\tfor i, p := range f.OptionalEmbedParents[:1] {\n\t\tif i > 0 {\n\t\t\ts = s.Op("&&")\n\t\t}', ['C03', 'C05'])
# ---- determinism
mut('schema-injected-fields-via-map-order', 'message_build_context.go', '\tv, ok := c.config.InjectedFields[c.GetPath()]\n\tif ok {\n\t\treturn v\n\t}', '\tfor k, v := range c.config.InjectedFields {\n\t\tif strings.HasPrefix(c.GetPath(), k) {\n\t\t\treturn v\n\t\t}\n\t}', ['C14'])
# ---- separate package
mut('imports-no-prefix-for-slices', 'imports.go', 'if strings.Contains(i.typBeforeBracket(typ), ".") || pkg == "" || i.isBuiltinType(typ) {', 'if strings.Contains(i.typBeforeBracket(typ), ".") || pkg == "" || i.isBuiltinType(typ) || strings.HasPrefix(mod, "[]*") {', ['C13'])
# ---- selected-only / whole-or-nothing
mut('empty-message-list-null', 'gen_copy_to.go', 'j.Id("c.Null").Op("=").False(),\n\t\t\t\t)', 'j.Id("c.Null").Op("=").Id("len(c.Elems) == 0"),\n\t\t\t\t)', [], )

def sh(cmd, cwd=None, timeout=3600):
    p = subprocess.run(cmd, shell=True, cwd=cwd, stdout=subprocess.PIPE, stderr=subprocess.STDOUT, text=True, timeout=timeout)
    return p.returncode, p.stdout

def main():
    sel = sys.argv[1:]
    results = []
    sh('git -C /repo worktree remove --force %s; git -C /repo worktree prune; git -C /repo worktree add --detach %s HEAD' % (REPO, REPO))
    for m in M:
        if sel and not any(s in m['name'] for s in sel):
            continue
        if not m['props']:
            continue
        path = os.path.join(REPO, m['file'])
        src = open(path).read()
        if src.count(m['old']) != m['count']:
            print('MUTANT %s: pattern found %d times, expected %d - skipped' % (m['name'], src.count(m['old']), m['count']))
            results.append(dict(name=m['name'], status='pattern-mismatch'))
            continue
        open(path, 'w').write(src.replace(m['old'], m['new']))
        try:
            rc, out = sh('gofmt -l . ; go build ./... && go test -vet=off -count=1 ./...', REPO)
            if rc != 0:
                print('MUTANT %s: repository build/tests fail - not a valid mutant\n%s' % (m['name'], out[-600:]))
                results.append(dict(name=m['name'], status='invalid'))
                continue
            row = dict(name=m['name'], status='valid', props={})
            for p in m['props']:
                t0 = time.time()
                rc, out = sh('VERIF_REPO=%s bin/pgtmc check %s --tier quick' % (REPO, p), '/verif')
                viol = [l for l in out.splitlines() if l.startswith('violation:')]
                row['props'][p] = dict(exit=rc, violations=len(viol), first=(viol[0][:300] if viol else ''), wall=round(time.time() - t0, 1))
                print('MUTANT %-45s %s exit=%d violations=%d %s' % (m['name'], p, rc, len(viol), (viol[0][:160] if viol else out.splitlines()[-1][:160])))
            results.append(row)
        finally:
            sh('git checkout -- .', REPO)
    sh('git -C /repo worktree remove --force %s; git -C /repo worktree prune' % REPO)
    json.dump(results, open('/verif/tools/mutants_last_run.json', 'w'), indent=1)
    missed = [(r['name'], p) for r in results if r.get('props') for p, v in r['props'].items() if v['exit'] != 1]
    print('missed:', missed)

main()
