package explorer

import (
	"fmt"
	"strings"

	"github.com/hashicorp/terraform-plugin-framework/tfsdk"

	"verif/spec"
	"verif/tfx"
)

func identOfValidator(v tfsdk.AttributeValidator) string {
	if x, ok := v.(tfx.Validator); ok {
		if x.Form != "" {
			return x.Form
		}
		return fmt.Sprintf("verif/tfx.V(%d)", x.ID)
	}
	return fmt.Sprintf("%T:%s", v, v.Description(bg))
}

func identOfPM(v tfsdk.AttributePlanModifier) string {
	if x, ok := v.(tfx.PlanModifier); ok {
		if x.Form != "" {
			return x.Form
		}
		return fmt.Sprintf("verif/tfx.PM(%d)", x.ID)
	}
	if fmt.Sprintf("%T", v) == fmt.Sprintf("%T", tfsdk.UseStateForUnknown()) {
		return "github.com/hashicorp/terraform-plugin-framework/tfsdk.UseStateForUnknown()"
	}
	return fmt.Sprintf("%T:%s", v, v.Description(bg))
}

// flagsWalk compares the schema attributes of one message occurrence with the spec (C10).
func flagsWalk(r *Result, m *spec.Msg, attrs map[string]tfsdk.Attribute, parentChain, path string) {
	w := func(p string) interface{} { return map[string]string{"kind": "schema-attribute", "path": p} }
	if m.Empty {
		if len(attrs)-len(m.Injected) != 1 {
			r.violate("empty-message-placeholder", parentChain+">placeholder", fmt.Sprintf("empty message at %q is represented by %d attributes, want the single placeholder", path, len(attrs)), w(path))
		}
	}
	for _, a := range m.Attrs {
		ch := chain(parentChain, a)
		p := joinPath(path, a.Name)
		sa, ok := attrs[a.Name]
		if !ok {
			r.violate("attribute-missing-in-schema", ch, "no schema attribute "+p, w(p))
			continue
		}
		r.outcome("attribute")
		bad := func(kind, format string, args ...interface{}) {
			r.violate(kind, ch, fmt.Sprintf("attribute %s (field %s): ", p, a.Path)+fmt.Sprintf(format, args...), w(p))
		}
		// (a custom attribute is what the GenSchema hook returned: the harness hook passes flags,
		// validators, plan modifiers and description through unchanged and only replaces the type,
		// so the configuration must show on it like on any other attribute; C17 judges the hook call itself)
		if a.Kind == spec.Custom {
			r.outcome("custom-attribute")
		}
		if sa.Required == sa.Optional {
			bad("required-xor-optional", "Required=%v Optional=%v", sa.Required, sa.Optional)
		}
		if sa.Required != a.Required {
			bad("required-flag", "Required=%v, configuration says %v", sa.Required, a.Required)
		}
		if sa.Computed != a.Computed {
			bad("computed-flag", "Computed=%v, configuration says %v", sa.Computed, a.Computed)
		}
		if sa.Sensitive != a.Sensitive {
			bad("sensitive-flag", "Sensitive=%v, configuration says %v", sa.Sensitive, a.Sensitive)
		}
		r.outcome(fmt.Sprintf("flags r=%v c=%v s=%v", a.Required, a.Computed, a.Sensitive))
		var vs, pms []string
		for _, v := range sa.Validators {
			vs = append(vs, identOfValidator(v))
		}
		for _, v := range sa.PlanModifiers {
			pms = append(pms, identOfPM(v))
		}
		if strings.Join(vs, "|") != strings.Join(a.Validators, "|") {
			bad("validators", "validators %v, configured %v", vs, a.Validators)
		}
		if strings.Join(pms, "|") != strings.Join(a.PlanModifiers, "|") {
			bad("plan-modifiers", "plan modifiers %v, expected %v", pms, a.PlanModifiers)
		}
		r.outcome(fmt.Sprintf("validators=%d planmodifiers=%d", len(a.Validators), len(a.PlanModifiers)))
		d := sa.Description
		if strings.ContainsAny(d, "\n\r") || d != strings.TrimSpace(d) {
			bad("description-not-single-trimmed-line", "description %q", d)
		}
		if strings.Join(strings.Fields(d), " ") != strings.Join(a.DescTokens, " ") {
			bad("description", "description %q, leading comment tokens %v", d, a.DescTokens)
		}
		if len(a.DescTokens) > 0 {
			r.outcome("described")
		}
		if a.Placeholder {
			if !sa.Computed || sa.Type == nil || sa.Type.String() != "types.BoolType" {
				bad("empty-message-placeholder", "placeholder must be a computed boolean, got type=%v computed=%v", sa.Type, sa.Computed)
			}
		}
		if a.Msg != nil && sa.Attributes != nil {
			flagsWalk(r, a.Msg, sa.Attributes.GetAttributes(), ch, p)
		}
	}
	for _, inj := range m.Injected {
		p := joinPath(path, inj.Name)
		sa, ok := attrs[inj.Name]
		ch := parentChain + ">injected"
		if !ok {
			r.violate("injected-missing", ch, "injected attribute "+p+" is not in the schema", w(p))
			continue
		}
		r.outcome("injected")
		if sa.Type == nil || !sa.Type.Equal(injectedType(inj.Type)) {
			r.violate("injected-type", ch, fmt.Sprintf("injected attribute %s has type %v, configured %s", p, sa.Type, inj.Type), w(p))
		}
		if sa.Required != inj.Required || sa.Computed != inj.Computed || sa.Optional != inj.Optional {
			r.violate("injected-flags", ch, fmt.Sprintf("injected attribute %s has required=%v computed=%v optional=%v, configured %v %v %v", p, sa.Required, sa.Computed, sa.Optional, inj.Required, inj.Computed, inj.Optional), w(p))
		}
		var vs, pms []string
		for _, v := range sa.Validators {
			vs = append(vs, identOfValidator(v))
		}
		for _, v := range sa.PlanModifiers {
			pms = append(pms, identOfPM(v))
		}
		if strings.Join(vs, "|") != strings.Join(inj.Validators, "|") || strings.Join(pms, "|") != strings.Join(inj.PlanModifiers, "|") {
			r.violate("injected-lists", ch, fmt.Sprintf("injected attribute %s has validators %v / plan modifiers %v, configured %v / %v", p, vs, pms, inj.Validators, inj.PlanModifiers), w(p))
		}
	}
	// nothing else
	for n := range attrs {
		if findAttr(m, n) != nil {
			continue
		}
		found := false
		for _, inj := range m.Injected {
			if inj.Name == n {
				found = true
			}
		}
		if !found {
			r.violate("unexpected-attribute-in-schema", parentChain+">?", "schema attribute "+joinPath(path, n)+" stems from no field and no injected entry", w(joinPath(path, n)))
		}
	}
}

func procC10(t *Target, tier string, r *Result) {
	schema := t.GetSchema()
	flagsWalk(r, t.Spec, schema.Attributes, "", "")
	// injected attributes never show in the converters' behaviour
	if len(t.Spec.Injected) > 0 {
		s, _ := t.buildSOpt(&Chooser{}, BaseFull, sOpts{})
		o := EmptyObject(schema)
		if res := t.callTo(s, &o); !res.Panicked {
			r.Transitions++
			for _, inj := range t.Spec.Injected {
				if _, ok := o.Attrs[inj.Name]; ok {
					r.violate("injected-written-by-converter", ">injected", "CopyTo writes the injected attribute "+inj.Name, map[string]string{"kind": "struct", "value": CanonS(s)})
				}
			}
		}
	}
	r.Evals++
	r.States++
	r.Transitions++
	r.Nontrivial++
	r.sample(map[string]string{"kind": "schema-flags-walk", "case": t.Label, "root": t.Root})
}

func init() { procs["C10"] = procC10 }
