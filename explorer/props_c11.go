package explorer

import (
	"fmt"
	"reflect"
	"strings"

	"github.com/hashicorp/terraform-plugin-framework/attr"
	"github.com/hashicorp/terraform-plugin-framework/types"
)

// extraAttrs reports attributes present in an object (at any object level) that its schema type does not declare.
func extraAttrs(t attr.Type, v attr.Value, path string, out *[]string) {
	switch x := v.(type) {
	case types.Object:
		ot, ok := t.(types.ObjectType)
		if !ok {
			return
		}
		for k, e := range x.Attrs {
			at, ok := ot.AttrTypes[k]
			if !ok {
				*out = append(*out, joinPath(path, k))
				continue
			}
			extraAttrs(at, e, joinPath(path, k), out)
		}
	case types.List:
		if lt, ok := t.(types.ListType); ok {
			for i, e := range x.Elems {
				extraAttrs(lt.ElemType, e, fmt.Sprintf("%s[%d]", path, i), out)
			}
		}
	case types.Map:
		if mt, ok := t.(types.MapType); ok {
			for k, e := range x.Elems {
				extraAttrs(mt.ElemType, e, path+"["+k+"]", out)
			}
		}
	}
}

// procC11: the variant's schema, flags and converter behaviour against the
// spec the oracle computes for the optioned configuration; exclusion is surgical.
func procC11(t *Target, tier string, r *Result) {
	schema := t.GetSchema()
	st := schema.AttributeType()
	compareTypes(r, t.Spec, expectedType(t.Spec), st, "", "")
	flagsWalk(r, t.Spec, schema.Attributes, "", "")
	// per-attribute schema digest for the driver's differential
	sd := map[string]string{}
	schemaDigest(schema.Attributes, "", sd)
	var sb strings.Builder
	for _, k := range sortedStrKeys(sd) {
		sb.WriteString(k + " => " + sd[k] + "\n")
	}
	r.Digests = map[string]string{"schema": sb.String()}
	// dynamic probing of every leaf (names at the right occurrences; excluded leaves must not leak)
	sub := newResult("C11", t)
	procC02(t, tier, sub)
	for _, v := range sub.Violations {
		r.violate(v.Kind, v.Shape, v.Msg, v.Witness)
	}
	r.Transitions += sub.Transitions
	r.States += sub.States
	// CopyTo emits nothing the schema does not declare; CopyFrom leaves undescribed fields alone
	for _, base := range []int{BaseFull, BaseMin, BaseZero} {
		s, _ := t.buildSOpt(&Chooser{}, base, sOpts{})
		o := EmptyObject(schema)
		res := t.callTo(s, &o)
		r.Transitions++
		if res.Panicked || len(res.errs()) > 0 {
			continue
		}
		var extra []string
		extraAttrs(st, o, "", &extra)
		if len(extra) > 0 {
			r.violate("undeclared-attribute-emitted", "excluded", fmt.Sprintf("CopyTo emits attributes the schema does not declare: %v", extra), SWitness{Kind: "struct", Base: base, Value: CanonS(s)})
		}
		for _, mk := range t.dirtyTargets()[:3] {
			tgt, name := mk()
			before := excludedCanon(tgt, t.Spec)
			res := t.callFrom(CopyObj(o), tgt)
			r.Transitions++
			if res.Panicked || len(res.errs()) > 0 {
				continue
			}
			if after := excludedCanon(tgt, t.Spec); after != before {
				r.violate("excluded-field-written", "excluded", "CopyFrom changes fields the schema does not describe: "+before+" -> "+after, SWitness{Kind: "struct", Base: base, Value: CanonS(s), Ops: []string{"SetS(" + name + ")", "From"}})
			}
		}
	}
	r.Evals++
	r.Nontrivial++
	r.sample(map[string]string{"kind": "optioned-variant", "case": t.Label, "root": t.Root})
	_ = reflect.TypeOf
}

func init() { procs["C11"] = procC11 }
