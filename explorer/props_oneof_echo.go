package explorer

import (
	"fmt"
	"reflect"
	"strings"

	"github.com/hashicorp/terraform-plugin-framework/attr"
	"github.com/hashicorp/terraform-plugin-framework/types"

	"verif/spec"
)

func hasOneof(m *spec.Msg) bool {
	for _, a := range m.Attrs {
		if a.Oneof != "" {
			return true
		}
		if a.Msg != nil && hasOneof(a.Msg) {
			return true
		}
	}
	return false
}

// procC07: oneof groups stay exclusive in both directions.
func procC07(t *Target, tier string, r *Result) {
	if !hasOneof(t.Spec) {
		r.outcome("no-oneof-in-case")
		r.States, r.Transitions, r.Evals = 0, 0, 0
		return
	}
	schema := t.GetSchema()
	dirty := t.dirtyTargets()
	// From direction: admissible objects (at most one known branch per group) x prior holders
	t.forEachO(tier, r, oOpts{Admissible: true}, func(obj types.Object, w OWitness) {
		r.sample(w)
		for _, mk := range dirty {
			tgt, name := mk()
			res := t.callFrom(CopyObj(obj), tgt)
			r.Transitions++
			ww := w
			ww.Extra = "prior target=" + name
			ww.Ops = []string{"SetS(" + name + ")", "SetO", "From"}
			if res.Panicked {
				r.outcome("from/panic")
				r.violate("from/panic", panicShape(t, tgt), "CopyFrom panics, the oneof cannot hold the chosen branch: "+res.Panic, ww)
				continue
			}
			if len(res.errs()) > 0 {
				r.outcome("from/error")
				continue
			}
			var mm []Mismatch
			refFrom(t.Spec, reflect.ValueOf(tgt).Elem(), obj, "", "", &mm)
			bad := false
			for _, m := range mm {
				if !strings.Contains(m.Chain, "@oneof") && m.Kind != "oneof-not-reset" {
					continue
				}
				// only the oneof attribute itself (not something below an object branch)
				last := m.Chain
				if i := strings.LastIndex(last, ">"); i >= 0 {
					last = last[i+1:]
				}
				if !strings.Contains(last, "@oneof") && m.Kind != "oneof-not-reset" {
					continue
				}
				bad = true
				r.violate("from/"+m.Kind, m.Chain, m.Detail, ww)
			}
			if bad {
				r.outcome("from/exclusive-violated")
			} else {
				r.outcome("from/ok")
			}
		}
	})
	// To direction: empty target
	t.forEachS(tier, r, func(s interface{}, w SWitness) {
		w.Ops = []string{"SetS", "EmptyO", "To"}
		o := EmptyObject(schema)
		res := t.callTo(s, &o)
		r.Transitions++
		if res.Panicked || len(res.errs()) > 0 {
			r.outcome("to/failed")
			return
		}
		walkBoth(t.Spec, reflect.ValueOf(s).Elem(), o, "", "", func(v visit) {
			a := v.A
			if a.Oneof == "" || !v.Has || v.Val == nil || a.Kind == spec.Custom {
				return
			}
			switch v.FS {
			case fsInactive:
				r.outcome("to/inactive-branch")
				if !v.Val.IsNull() {
					r.violate("to/inactive-branch-not-null", v.Chain, fmt.Sprintf("attribute %s belongs to an inactive oneof branch but is rendered non-null: %s", v.TFPath, CanonO(v.Val)), w)
				}
			case fsOK:
				if normZeroPayload(v.Field) {
					r.outcome("to/active-zero-branch")
					return
				}
				r.outcome("to/active-branch")
				if v.Val.IsNull() {
					r.violate("to/active-branch-null", v.Chain, fmt.Sprintf("attribute %s is the active branch with a non-zero payload but is rendered null", v.TFPath), w)
					return
				}
				if a.Kind == spec.Prim {
					if want, ok := goPayload(v.Field, v.Val); ok && want != attrPayload(v.Val) {
						r.violate("to/active-branch-wrong-payload", v.Chain, fmt.Sprintf("attribute %s holds %s, the active branch holds %s", v.TFPath, attrPayload(v.Val), want), w)
					}
				}
			}
		})
	})
}

// ---------------------------------------------------------------------------
// C08 apply echo

func leafEqual(a, b attr.Value) bool {
	if a == nil || b == nil {
		return a == nil && b == nil
	}
	ta, err1 := a.ToTerraformValue(bg)
	tb, err2 := b.ToTerraformValue(bg)
	if err1 != nil || err2 != nil {
		return false
	}
	return ta.Equal(tb)
}

// unknownPathsSpec is unknownPaths restricted to what the converters own: attributes of an
// object that the spec does not describe (injected, schema-only attributes) are skipped at every depth.
func unknownPathsSpec(a *spec.Attr, v attr.Value, path string, out *[]string) {
	if v == nil {
		return
	}
	var sub *spec.Msg
	if a != nil {
		sub = a.Msg
	}
	switch x := v.(type) {
	case types.Object:
		if x.Unknown {
			*out = append(*out, path)
		}
		for k, e := range x.Attrs {
			ca := findAttr(sub, k)
			if sub != nil && ca == nil {
				continue // injected
			}
			unknownPathsSpec(ca, e, joinPath(path, k), out)
		}
	case types.List:
		if x.Unknown {
			*out = append(*out, path)
		}
		for i, e := range x.Elems {
			unknownPathsSpec(elemAttr(a), e, fmt.Sprintf("%s[%d]", path, i), out)
		}
	case types.Map:
		if x.Unknown {
			*out = append(*out, path)
		}
		for k, e := range x.Elems {
			unknownPathsSpec(elemAttr(a), e, path+"["+k+"]", out)
		}
	default:
		if v.IsUnknown() {
			*out = append(*out, path)
		}
	}
}

func unknownPaths(v attr.Value, path string, out *[]string) {
	if v == nil {
		return
	}
	switch x := v.(type) {
	case types.Object:
		if x.Unknown {
			*out = append(*out, path)
		}
		for k, e := range x.Attrs {
			unknownPaths(e, joinPath(path, k), out)
		}
	case types.List:
		if x.Unknown {
			*out = append(*out, path)
		}
		for i, e := range x.Elems {
			unknownPaths(e, fmt.Sprintf("%s[%d]", path, i), out)
		}
	case types.Map:
		if x.Unknown {
			*out = append(*out, path)
		}
		for k, e := range x.Elems {
			unknownPaths(e, path+"["+k+"]", out)
		}
	default:
		if v.IsUnknown() {
			*out = append(*out, path)
		}
	}
}

// echoWalk judges the result object against the plan for the attributes of
// message m (non-element positions), per C08.
func echoWalk(r *Result, w interface{}, m *spec.Msg, plan, res types.Object, parentChain, path string) {
	for _, a := range m.Attrs {
		if a.Kind == spec.Custom {
			continue
		}
		ch := chain(parentChain, a)
		p := joinPath(path, a.Name)
		pv, ok1 := plan.Attrs[a.Name]
		rv, ok2 := res.Attrs[a.Name]
		if !ok1 || pv == nil {
			continue
		}
		if !ok2 || rv == nil {
			r.violate("attribute-lost", ch, fmt.Sprintf("attribute %s is absent after the echo", p), w)
			continue
		}
		var unk []string
		unknownPathsSpec(a, rv, p, &unk)
		if len(unk) > 0 {
			r.violate("unknown-after-echo", ch, fmt.Sprintf("unknown values remain at %v", unk), w)
		}
		if pv.IsUnknown() {
			r.outcome("planned-unknown")
			continue
		}
		switch a.Kind {
		case spec.Prim:
			r.outcome("planned-known-leaf")
			if !leafEqual(pv, rv) {
				r.violate("known-leaf-changed", ch, fmt.Sprintf("attribute %s was planned as %s and comes back as %s", p, CanonOValues(pv), CanonOValues(rv)), w)
			}
		case spec.Obj:
			po, okp := pv.(types.Object)
			ro, okr := rv.(types.Object)
			if !okp || !okr {
				continue
			}
			r.outcome("planned-known-object")
			if po.Null != ro.Null {
				r.violate("object-nullness-changed", ch, fmt.Sprintf("object %s was planned null=%v and comes back null=%v", p, po.Null, ro.Null), w)
				continue
			}
			if !po.Null && a.Msg != nil {
				echoWalk(r, w, a.Msg, po, ro, ch, p)
			}
		case spec.List, spec.ObjList:
			pl, okp := pv.(types.List)
			rl, okr := rv.(types.List)
			if !okp || !okr {
				continue
			}
			r.outcome("planned-known-list")
			if pl.Null != rl.Null || len(pl.Elems) != len(rl.Elems) {
				r.violate("list-shape-changed", ch, fmt.Sprintf("list %s was planned null=%v len=%d and comes back null=%v len=%d", p, pl.Null, len(pl.Elems), rl.Null, len(rl.Elems)), w)
			}
		case spec.Map, spec.ObjMap:
			pm, okp := pv.(types.Map)
			rm, okr := rv.(types.Map)
			if !okp || !okr {
				continue
			}
			r.outcome("planned-known-map")
			if pm.Null != rm.Null || fmt.Sprint(keysOf(pm.Elems)) != fmt.Sprint(keysOf(rm.Elems)) {
				r.violate("map-shape-changed", ch, fmt.Sprintf("map %s was planned null=%v keys=%v and comes back null=%v keys=%v", p, pm.Null, keysOf(pm.Elems), rm.Null, keysOf(rm.Elems)), w)
			}
		}
	}
}

func procC08(t *Target, tier string, r *Result) {
	excl := exclFor(t.Spec)
	t.forEachO(tier, r, oOpts{Admissible: true, StrictOneof: true}, func(plan types.Object, w OWitness) {
		w.Ops = []string{"SetO(plan)", "FreshS", "From", "To"}
		r.sample(w)
		s := t.New()
		res := t.callFrom(CopyObj(plan), s)
		r.Transitions++
		if res.Panicked || len(res.errs()) > 0 {
			r.outcome("from-failed")
			return // C05 reports
		}
		o := CopyObj(plan)
		res = t.callTo(s, &o)
		r.Transitions++
		if res.Panicked {
			r.outcome("to-panic")
			r.violate("panic", panicShape(t, s), "CopyTo back into the plan panics: "+res.Panic, w)
			return
		}
		if e := res.errs(); len(e) > 0 {
			r.outcome("to-error")
			r.violate("error-diagnostic", "root", "CopyTo back into the plan returns errors: "+diagText(e), w)
			return
		}
		r.outcome("echoed")
		echoWalk(r, w, t.Spec, plan, o, "", "")
		s2 := t.New()
		res = t.callFrom(CopyObj(o), s2)
		r.Transitions++
		if res.Panicked || len(res.errs()) > 0 {
			r.violate("result-not-decodable", "root", "decoding the echoed object fails", w)
			return
		}
		if a, b := NormS(s, excl), NormS(s2, excl); a != b {
			sh, detail := firstDiff(t.Spec, reflect.ValueOf(s).Elem(), reflect.ValueOf(s2).Elem(), excl)
			r.violate("redecode-differs", sh, "decoding the echoed object gives a different struct: "+detail, w)
		}
	})
}

func init() {
	procs["C07"] = procC07
	procs["C08"] = procC08
}
