package explorer

import (
	"fmt"
	"reflect"
	"strings"

	"github.com/hashicorp/terraform-plugin-framework/attr"
	"github.com/hashicorp/terraform-plugin-framework/types"

	"verif/spec"
)

type stringsBuilder struct{ strings.Builder }

// OWitness identifies one enumerated Terraform object.
type OWitness struct {
	Kind    string   `json:"kind"`
	Base    int      `json:"base"`
	Choices []int    `json:"choices"`
	Points  []string `json:"points,omitempty"`
	Object  string   `json:"object"`
	Extra   string   `json:"extra,omitempty"`
	Ops     []string `json:"ops,omitempty"`
}

type oOpts struct {
	StrictOneof bool
	Admissible  bool
	NoUnknown   bool
	Bases       []int
	K           int
}

func (t *Target) buildO(ch *Chooser, base int, o oOpts) (types.Object, *OBuilder, error) {
	schema := t.GetSchema()
	b := &OBuilder{Ch: ch, Base: base, Admissible: o.Admissible, NoUnknown: o.NoUnknown, StrictOneof: o.StrictOneof}
	raw := b.Object(t.Spec, schema.AttributeType().(types.ObjectType), "")
	obj, err := Decode(schema, raw)
	return obj, b, err
}

// forEachO enumerates the object alphabet (DESIGN.md §3.7): objects decoded by
// the framework from every raw value within the deviation bound of the bases.
func (t *Target) forEachO(tier string, r *Result, o oOpts, fn func(obj types.Object, w OWitness)) {
	tc := tierOf(tier)
	if o.K > 0 {
		tc.k = o.K
	}
	bases := o.Bases
	if bases == nil {
		bases = []int{OBaseNull, OBaseUnknown, OBaseKnownZero, OBaseKnownFull}
	}
	_, capped := Explore(-1, tc.fullLimit/2, func(ch *Chooser) {
		b := &OBuilder{Ch: ch, Base: OBaseNull, Admissible: o.Admissible, NoUnknown: o.NoUnknown, StrictOneof: o.StrictOneof}
		b.Object(t.Spec, t.GetSchema().AttributeType().(types.ObjectType), "")
	})
	seen := map[string]bool{}
	run := func(base int) func(ch *Chooser) {
		return func(ch *Chooser) {
			obj, b, err := t.buildO(ch, base, o)
			r.Evals++
			if err != nil {
				r.HarnessErr = "object enumeration: " + err.Error()
				return
			}
			key := CanonO(obj)
			if seen[key] {
				return
			}
			seen[key] = true
			if !mine(key) {
				return
			}
			fn(obj, OWitness{Kind: "object", Base: base, Choices: append([]int{}, ch.Choices...), Points: b.Points, Object: CanonOValues(obj)})
		}
	}
	if !capped {
		Explore(-1, 0, run(OBaseNull))
		r.Bound = "full product of the attribute state domains"
	} else {
		probe := &Chooser{}
		pb := &OBuilder{Ch: probe, Base: OBaseKnownFull, Admissible: o.Admissible, NoUnknown: o.NoUnknown, StrictOneof: o.StrictOneof}
		pb.Object(t.Spec, t.GetSchema().AttributeType().(types.ObjectType), "")
		alts := 0
		for _, a := range probe.Arity {
			alts += a - 1
		}
		k := tc.k
		for k > 1 && estimate(alts, k) > tc.budget/2 {
			k--
		}
		for _, base := range bases {
			_, c := Explore(k, tc.budget/2, run(base))
			if c {
				r.Capped = true
			}
		}
		r.Bound = fmt.Sprintf("deviation bound k=%d around %d bases", k, len(bases))
	}
	r.States += len(seen) / partN
	r.Nontrivial += len(seen) / partN
}

// graftPayloads returns copies of o in which null/unknown nodes carry the
// payload of the corresponding node of donor (a fully known object); the
// chooser decides per node (default: no payload).
func graftPayloads(ch *Chooser, v, donor attr.Value, path string, points *[]string) attr.Value {
	pick := func() bool {
		*points = append(*points, path)
		return ch.Choose(2) == 1
	}
	switch x := v.(type) {
	case types.Object:
		d, ok := donor.(types.Object)
		if !ok {
			return v
		}
		if x.Null || x.Unknown {
			if pick() {
				x.Attrs = CopyObj(d).Attrs
			}
			return x
		}
		n := x
		n.Attrs = map[string]attr.Value{}
		for k, e := range x.Attrs {
			n.Attrs[k] = graftPayloads(ch, e, d.Attrs[k], joinPath(path, k), points)
		}
		return n
	case types.List:
		d, ok := donor.(types.List)
		if !ok {
			return v
		}
		if x.Null || x.Unknown {
			if pick() {
				x.Elems = CopyO(d).(types.List).Elems
			}
			return x
		}
		n := x
		n.Elems = make([]attr.Value, len(x.Elems))
		for i, e := range x.Elems {
			var de attr.Value
			if len(d.Elems) > 0 {
				de = d.Elems[i%len(d.Elems)]
			}
			n.Elems[i] = graftPayloads(ch, e, de, fmt.Sprintf("%s[%d]", path, i), points)
		}
		return n
	case types.Map:
		d, ok := donor.(types.Map)
		if !ok {
			return v
		}
		if x.Null || x.Unknown {
			if pick() {
				x.Elems = CopyO(d).(types.Map).Elems
			}
			return x
		}
		n := x
		n.Elems = map[string]attr.Value{}
		for k, e := range x.Elems {
			var de attr.Value
			for _, dv := range d.Elems {
				de = dv
				break
			}
			if dv, ok := d.Elems[k]; ok {
				de = dv
			}
			n.Elems[k] = graftPayloads(ch, e, de, path+"["+k+"]", points)
		}
		return n
	case types.String:
		if (x.Null || x.Unknown) && donor != nil {
			if d, ok := donor.(types.String); ok && pick() {
				x.Value = d.Value
			}
		}
		return x
	case types.Int64:
		if (x.Null || x.Unknown) && donor != nil {
			if d, ok := donor.(types.Int64); ok && pick() {
				x.Value = d.Value
			}
		}
		return x
	case types.Float64:
		if (x.Null || x.Unknown) && donor != nil {
			if d, ok := donor.(types.Float64); ok && pick() {
				x.Value = d.Value
			}
		}
		return x
	case types.Bool:
		if (x.Null || x.Unknown) && donor != nil {
			if d, ok := donor.(types.Bool); ok && pick() {
				x.Value = d.Value
			}
		}
		return x
	}
	// time / duration / sentinel values: rebuilt through reflection
	if donor != nil && nullOrUnknown(v) && reflect.TypeOf(v) == reflect.TypeOf(donor) {
		if pick() {
			n := reflect.New(reflect.TypeOf(v)).Elem()
			n.Set(reflect.ValueOf(v))
			if f := n.FieldByName("Value"); f.IsValid() {
				f.Set(reflect.ValueOf(donor).FieldByName("Value"))
			}
			return n.Interface().(attr.Value)
		}
	}
	return v
}

// dirtyTargets returns the prior target contents of C05: fresh, dirty-full
// (every field non-zero, excluded and XXX_ fields set), the same with every
// oneof on each of its branches in turn, and dirty-minimal.
func (t *Target) dirtyTargets() []func() (interface{}, string) {
	var out []func() (interface{}, string)
	out = append(out, func() (interface{}, string) { return t.New(), "fresh" })
	mk := func(base int, prefix []int, name string) {
		out = append(out, func() (interface{}, string) {
			s, _ := t.buildSOpt(Replay(prefix), base, sOpts{})
			dirtyXXX(reflect.ValueOf(s).Elem())
			return s, name
		})
	}
	mk(BaseFull, nil, "dirty-full")
	mk(BaseMin, nil, "dirty-min")
	probe := &Chooser{}
	_, pb := t.buildSOpt(probe, BaseFull, sOpts{})
	n := 0
	for i, p := range pb.Points {
		if !strings.HasSuffix(p, "/oneof") {
			continue
		}
		for alt := 1; alt < probe.Arity[i] && n < 12; alt++ {
			prefix := make([]int, i+1)
			prefix[i] = alt
			mk(BaseFull, prefix, fmt.Sprintf("dirty-full,%s=%d", p, alt))
			n++
		}
	}
	return out
}

func dirtyXXX(v reflect.Value) {
	if v.Kind() != reflect.Struct || v.Type() == timeType {
		return
	}
	if f := v.FieldByName("XXX_unrecognized"); f.IsValid() && f.CanSet() {
		f.SetBytes([]byte{0xAA})
	}
}

// describedCanon renders the part of a struct the schema describes (excluded fields left out).
func describedCanon(s interface{}, excl Excl) string {
	var sb strings.Builder
	sform{excl: excl, embedNorm: true}.render(&sb, reflect.ValueOf(s), "", false)
	return sb.String()
}

// excludedCanon renders only the excluded fields and XXX_ fields.
func excludedCanon(s interface{}, m *spec.Msg) string {
	var sb strings.Builder
	var walk func(m *spec.Msg, sv reflect.Value, prefix string)
	walk = func(m *spec.Msg, sv reflect.Value, prefix string) {
		if x := sv.FieldByName("XXX_unrecognized"); x.IsValid() {
			fmt.Fprintf(&sb, "%s.XXX=%x;", prefix, x.Bytes())
		}
		for _, e := range m.Excluded {
			cur := sv
			ok := true
			for _, st := range e.Embed {
				f := cur.FieldByName(st.Go)
				if f.Kind() == reflect.Ptr {
					if f.IsNil() {
						ok = false
						break
					}
					f = f.Elem()
				}
				cur = f
			}
			if !ok {
				continue
			}
			if e.Oneof != "" {
				// an excluded oneof branch lives in a holder that the described branches own:
				// C07 requires the holder to be reset, so no "untouched" claim is made for it
				continue
			}
			f := cur.FieldByName(e.Go)
			if f.IsValid() {
				sb.WriteString(prefix + "." + e.Go + "=")
				sform{}.render(&sb, f, "", false)
				sb.WriteString(";")
			}
		}
	}
	walk(m, reflect.ValueOf(s).Elem(), "")
	return sb.String()
}

func procC05(t *Target, tier string, r *Result) {
	excl := exclFor(t.Spec)
	// donor: the fully known default object
	donor, _, err := t.buildO(&Chooser{}, OBaseKnownFull, oOpts{})
	if err != nil {
		r.HarnessErr = err.Error()
		return
	}
	dirty := t.dirtyTargets()
	// prior decodes (histories of length 2): the default object of every base
	var priors []types.Object
	for base := 0; base < NumOBases; base++ {
		if o, _, err := t.buildO(&Chooser{}, base, oOpts{}); err == nil {
			priors = append(priors, o)
		}
	}
	payloadBound := 1
	if tier == "thorough" {
		payloadBound = 2
	}
	t.forEachO(tier, r, oOpts{}, func(obj types.Object, w OWitness) {
		w.Ops = []string{"FreshS", "SetO", "From"}
		r.sample(w)
		// reference run: fresh target, no payload
		ref := t.New()
		res := t.callFrom(CopyObj(obj), ref)
		r.Transitions++
		if res.Panicked {
			r.outcome("panic")
			r.violate("panic", panicShape(t, t.New()), "CopyFrom of a conforming object into a fresh struct panics: "+res.Panic, w)
			return
		}
		if e := res.errs(); len(e) > 0 {
			r.outcome("error-diag")
			r.violate("error-diagnostic", "root", "CopyFrom of a conforming object returns errors: "+diagText(e), w)
			return
		}
		r.outcome("decoded")
		var mm []Mismatch
		refFrom(t.Spec, reflect.ValueOf(ref).Elem(), obj, "", "", &mm)
		for _, m := range mm {
			if m.Kind == "not-reset" || m.Kind == "oneof-not-reset" {
				r.violate(m.Kind, m.Chain, "fresh target: "+m.Detail, w)
			}
		}
		want := describedCanon(ref, excl)
		// payload placements x prior targets
		Explore(payloadBound, 400, func(pc *Chooser) {
			var pts []string
			po := graftPayloads(pc, CopyObj(obj), donor, "", &pts).(types.Object)
			payloaded := false
			for _, c := range pc.Choices {
				if c != 0 {
					payloaded = true
				}
			}
			for di, mk := range dirty {
				if !payloaded && di == 0 {
					continue // the reference run itself
				}
				if payloaded && di > 1 {
					break // payloads are crossed with the fresh and the dirty-full target only
				}
				tgt, name := mk()
				prior := excludedCanon(tgt, t.Spec)
				res := t.callFrom(CopyObj(po), tgt)
				r.Transitions++
				ww := w
				ww.Extra = fmt.Sprintf("prior target=%s payload choices=%v at %v", name, pc.Choices, pts)
				ww.Ops = []string{"SetS(" + name + ")", "SetO", "Payload", "From"}
				if res.Panicked {
					r.violate("panic", panicShape(t, tgt), "CopyFrom into a populated struct panics: "+res.Panic, ww)
					continue
				}
				if e := res.errs(); len(e) > 0 {
					r.violate("error-diagnostic", "root", "CopyFrom returns errors: "+diagText(e), ww)
					continue
				}
				got := describedCanon(tgt, excl)
				if got != want {
					kind := "depends-on-prior-target"
					if payloaded {
						kind = "depends-on-payload"
					}
					var mm []Mismatch
					refFrom(t.Spec, reflect.ValueOf(tgt).Elem(), obj, "", "", &mm)
					sh := "?"
					detail := ""
					for _, m := range mm {
						sh, detail = m.Chain, m.Kind+": "+m.Detail
						break
					}
					if sh == "?" {
						sh, detail = firstDiff(t.Spec, reflect.ValueOf(ref).Elem(), reflect.ValueOf(tgt).Elem(), excl)
					}
					r.outcome(kind)
					r.violate(kind, sh, detail+"\n   fresh/no-payload result "+want+"\n   this result             "+got, ww)
				} else {
					r.outcome("agrees")
				}
				if after := excludedCanon(tgt, t.Spec); after != prior {
					r.violate("undescribed-field-touched", "excluded", "fields not described by the schema changed: "+prior+" -> "+after, ww)
				}
			}
		})
		// histories of length 2: decode a prior object first
		for pi, p := range priors {
			tgt := t.New()
			if res := t.callFrom(CopyObj(p), tgt); res.Panicked || len(res.errs()) > 0 {
				continue
			}
			res := t.callFrom(CopyObj(obj), tgt)
			r.Transitions += 2
			if res.Panicked || len(res.errs()) > 0 {
				continue
			}
			if got := describedCanon(tgt, excl); got != want {
				ww := w
				ww.Extra = fmt.Sprintf("history: decode of base object %d first", pi)
				ww.Ops = []string{"FreshS", "SetO(prior)", "From", "SetO", "From"}
				var mm []Mismatch
				refFrom(t.Spec, reflect.ValueOf(tgt).Elem(), obj, "", "", &mm)
				sh, detail := "?", ""
				for _, m := range mm {
					sh, detail = m.Chain, m.Kind+": "+m.Detail
					break
				}
				if sh == "?" {
					sh, detail = firstDiff(t.Spec, reflect.ValueOf(ref).Elem(), reflect.ValueOf(tgt).Elem(), excl)
				}
				r.violate("depends-on-prior-target", sh, detail, ww)
			}
		}
	})
}

func init() { procs["C05"] = procC05 }
