package explorer

import (
	"crypto/sha256"
	"fmt"
	"reflect"
	"sort"
	"strings"

	"github.com/hashicorp/terraform-plugin-framework/tfsdk"
	"github.com/hashicorp/terraform-plugin-framework/types"
)

// schemaDigest renders the run-time schema per attribute path: type, flags,
// description, validator and plan-modifier identities, nesting mode.
func schemaDigest(attrs map[string]tfsdk.Attribute, path string, out map[string]string) {
	names := make([]string, 0, len(attrs))
	for n := range attrs {
		names = append(names, n)
	}
	sort.Strings(names)
	for _, n := range names {
		a := attrs[n]
		p := joinPath(path, n)
		var vs, pms []string
		for _, v := range a.Validators {
			vs = append(vs, v.Description(bg))
		}
		for _, v := range a.PlanModifiers {
			pms = append(pms, v.Description(bg))
		}
		ty := "<nested>"
		if a.Type != nil {
			ty = typeString(a.Type)
		}
		mode := ""
		if a.Attributes != nil {
			mode = fmt.Sprint(a.Attributes.GetNestingMode())
		}
		out[p] = fmt.Sprintf("type=%s mode=%s req=%v opt=%v comp=%v sens=%v desc=%q val=%v pm=%v", ty, mode, a.Required, a.Optional, a.Computed, a.Sensitive, a.Description, vs, pms)
		if a.Attributes != nil {
			schemaDigest(a.Attributes.GetAttributes(), p, out)
		}
	}
}

// procDigest computes order- and package-insensitive digests of the schema and
// of the converters' behaviour over the enumerated alphabets; the driver
// compares them between the variants of a group (C13, C15).
func procDigest(t *Target, tier string, r *Result) {
	schema := t.GetSchema()
	r.Digests = map[string]string{}
	sd := map[string]string{}
	schemaDigest(schema.Attributes, "", sd)
	var sb strings.Builder
	for _, k := range sortedStrKeys(sd) {
		sb.WriteString(k + " => " + sd[k] + "\n")
	}
	r.Digests["schema"] = sb.String()
	excl := exclFor(t.Spec)
	hTo, hBack, hRefresh, hFrom := sha256.New(), sha256.New(), sha256.New(), sha256.New()
	var prevO *types.Object
	t.forEachS(tier, r, func(s interface{}, w SWitness) {
		o := EmptyObject(schema)
		res := t.callTo(s, &o)
		r.Transitions++
		fmt.Fprintf(hTo, "%s -> panic=%v errs=%d %s\n", w.Value, res.Panicked, len(res.errs()), CanonOValues(o))
		if res.Panicked || len(res.errs()) > 0 {
			return
		}
		back := t.New()
		res = t.callFrom(o, back)
		r.Transitions++
		fmt.Fprintf(hBack, "%s -> panic=%v errs=%d %s\n", w.Value, res.Panicked, len(res.errs()), NormS(back, excl))
		// refresh: into the object produced by the previous value
		if prevO != nil {
			o2 := CopyObj(*prevO)
			res = t.callTo(s, &o2)
			r.Transitions++
			fmt.Fprintf(hRefresh, "%s -> panic=%v errs=%d %s\n", w.Value, res.Panicked, len(res.errs()), CanonOValues(o2))
		}
		oc := CopyObj(o)
		prevO = &oc
		r.sample(w)
	})
	// admissible objects only: with two known branches of one oneof "the last
	// one wins", which legitimately depends on declaration order
	t.forEachO(tier, r, oOpts{Admissible: true}, func(obj types.Object, w OWitness) {
		tgt := t.New()
		res := t.callFrom(CopyObj(obj), tgt)
		r.Transitions++
		fmt.Fprintf(hFrom, "%s -> panic=%v errs=%d %s\n", w.Object, res.Panicked, len(res.errs()), CanonS(reflect.ValueOf(tgt).Interface()))
	})
	r.Digests["to-empty"] = fmt.Sprintf("%x", hTo.Sum(nil))
	r.Digests["round-trip"] = fmt.Sprintf("%x", hBack.Sum(nil))
	r.Digests["refresh"] = fmt.Sprintf("%x", hRefresh.Sum(nil))
	r.Digests["from"] = fmt.Sprintf("%x", hFrom.Sum(nil))
}

func sortedStrKeys(m map[string]string) []string {
	ks := make([]string, 0, len(m))
	for k := range m {
		ks = append(ks, k)
	}
	sort.Strings(ks)
	return ks
}

func init() { procs["DIGEST"] = procDigest }
