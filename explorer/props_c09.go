package explorer

import (
	"fmt"
	"reflect"
	"strings"

	"github.com/hashicorp/terraform-plugin-framework/attr"
	"github.com/hashicorp/terraform-plugin-framework/types"

	"verif/spec"
)

// refreshWalk judges object `now` (result of CopyTo(src) into `prev`) against
// the source, using `fresh` (CopyTo(src) into an empty object) as the rendering
// of the source's collections; non-element positions reachable through objects
// that are non-null in all three.
func refreshWalk(r *Result, w interface{}, m *spec.Msg, sv reflect.Value, prev, now, fresh types.Object, parentChain, path string) {
	for _, a := range m.Attrs {
		if a.Kind == spec.Custom || a.Placeholder {
			continue
		}
		ch := chain(parentChain, a)
		p := joinPath(path, a.Name)
		nv, ok := now.Attrs[a.Name]
		fv, ok2 := fresh.Attrs[a.Name]
		pv, ok3 := prev.Attrs[a.Name]
		if !ok || !ok2 || nv == nil || fv == nil {
			continue
		}
		var unk []string
		unknownPathsSpec(a, nv, p, &unk)
		if len(unk) > 0 {
			r.violate("unknown-after-refresh", ch, fmt.Sprintf("unknown values at %v", unk), w)
		}
		f, fs := goField(sv, a)
		switch a.Kind {
		case spec.List, spec.ObjList:
			nl, okn := nv.(types.List)
			fl, okf := fv.(types.List)
			if !okn || !okf {
				continue
			}
			srcLen := 0
			if fs == fsOK {
				srcLen = f.Len()
			}
			cls := "list-same"
			if pl, ok := pv.(types.List); ok3 && ok {
				switch {
				case srcLen > len(pl.Elems):
					cls = "list-grew"
				case srcLen < len(pl.Elems) && srcLen > 0:
					cls = "list-shrank"
				case srcLen == 0 && len(pl.Elems) > 0 && fs == fsOK && f.IsNil():
					cls = "list-became-nil"
				case srcLen == 0 && len(pl.Elems) > 0:
					cls = "list-became-empty"
				}
			}
			r.outcome(cls)
			if len(nl.Elems) != srcLen {
				r.violate("stale-list-length", ch, fmt.Sprintf("list %s has %d elements after the refresh, the source has %d (%s)", p, len(nl.Elems), srcLen, cls), w)
				continue
			}
			for i := range nl.Elems {
				if i < len(fl.Elems) && CanonOValues(nl.Elems[i]) != CanonOValues(fl.Elems[i]) {
					r.violate("stale-list-element", ch, fmt.Sprintf("element %s[%d] is %s, the source renders %s", p, i, CanonOValues(nl.Elems[i]), CanonOValues(fl.Elems[i])), w)
					break
				}
			}
		case spec.Map, spec.ObjMap:
			nm, okn := nv.(types.Map)
			fm, okf := fv.(types.Map)
			if !okn || !okf {
				continue
			}
			var srcKeys []string
			if fs == fsOK {
				srcKeys = goKeys(f)
			}
			cls := "map-same-keys"
			if pm, ok := pv.(types.Map); ok3 && ok {
				lost, gained := false, false
				have := map[string]bool{}
				for _, k := range srcKeys {
					have[k] = true
					if _, ok := pm.Elems[k]; !ok {
						gained = true
					}
				}
				for k := range pm.Elems {
					if !have[k] {
						lost = true
					}
				}
				switch {
				case lost && len(srcKeys) == 0:
					cls = "map-became-empty"
				case lost && gained:
					cls = "map-lost-and-gained-keys"
				case lost:
					cls = "map-lost-keys"
				case gained:
					cls = "map-gained-keys"
				}
			}
			r.outcome(cls)
			if fmt.Sprint(keysOf(nm.Elems)) != fmt.Sprint(srcKeys) && !(len(nm.Elems) == 0 && len(srcKeys) == 0) {
				r.violate("stale-map-keys", ch, fmt.Sprintf("map %s has keys %v after the refresh, the source has %v (%s)", p, keysOf(nm.Elems), srcKeys, cls), w)
				continue
			}
			for k, e := range nm.Elems {
				if fe, ok := fm.Elems[k]; ok && CanonOValues(e) != CanonOValues(fe) {
					r.violate("stale-map-value", ch, fmt.Sprintf("value %s[%s] is %s, the source renders %s", p, k, CanonOValues(e), CanonOValues(fe)), w)
					break
				}
			}
		case spec.Prim:
			if a.Ptr {
				if fs == fsOK || fs == fsInactive || fs == fsNilEmbed {
					wantNull := fs != fsOK || f.IsNil()
					r.outcome(fmt.Sprintf("nullable-scalar-null=%v", wantNull))
					if nv.IsNull() != wantNull {
						r.violate("nullable-scalar-nullness", ch, fmt.Sprintf("attribute %s null=%v but the source pointer nil=%v", p, nv.IsNull(), wantNull), w)
					} else if !wantNull && attrPayload(nv) != attrPayload(fv) {
						r.violate("stale-scalar", ch, fmt.Sprintf("attribute %s holds %s, the source renders %s", p, attrPayload(nv), attrPayload(fv)), w)
					}
				}
				continue
			}
			if ok3 && pv != nil && !pv.IsNull() && !pv.IsUnknown() {
				r.outcome("scalar-was-non-null")
				if attrPayload(nv) != attrPayload(fv) && !(nv.IsNull() && fv.IsNull()) {
					r.violate("stale-scalar", ch, fmt.Sprintf("attribute %s was non-null and now holds %s, the source renders %s", p, attrPayload(nv), attrPayload(fv)), w)
				}
			}
		case spec.Obj:
			no, okn := nv.(types.Object)
			fo, okf := fv.(types.Object)
			if !okn || !okf {
				continue
			}
			if a.Ptr && (fs != fsOK || f.IsNil()) {
				r.outcome("nullable-message-nil")
				if !no.Null {
					r.violate("nil-message-not-null", ch, fmt.Sprintf("object %s is not null although the source message is nil", p), w)
				}
				continue
			}
			po, okp := pv.(types.Object)
			if !okp || no.Null || fo.Null || po.Null || po.Unknown || a.Msg == nil || fs != fsOK {
				continue
			}
			sub := f
			if sub.Kind() == reflect.Ptr {
				sub = sub.Elem()
			}
			refreshWalk(r, w, a.Msg, sub, po, no, fo, ch, p)
		}
	}
}

// sourceAlphabet returns the struct values used as refresh sources.
func (t *Target) sourceAlphabet(tier string, r *Result) []interface{} {
	limit := 48
	if tier == "thorough" {
		limit = 160
	}
	var out []interface{}
	seen := map[string]bool{}
	add := func(s interface{}) {
		k := CanonS(s)
		if !seen[k] {
			seen[k] = true
			out = append(out, s)
		}
	}
	// full product if small, else k=1 around the bases, container/pointer/oneof points first
	n, capped := Explore(-1, limit, func(ch *Chooser) { t.buildSOpt(ch, BaseZero, sOpts{}) })
	_ = n
	if !capped {
		Explore(-1, 0, func(ch *Chooser) { s, _ := t.buildSOpt(ch, BaseZero, sOpts{}); add(s) })
		r.Bound = "source alphabet: full product of the value domains"
		return out
	}
	structural := func(p string) bool { return strings.Contains(p, "/") }
	for _, only := range []func(string) bool{structural, nil} {
		for _, base := range []int{BaseFull, BaseMin, BaseZero} {
			Explore(1, 0, func(ch *Chooser) {
				if len(out) >= limit {
					return
				}
				s, _ := t.buildSOpt(ch, base, sOpts{Only: only})
				add(s)
			})
		}
	}
	r.Bound = fmt.Sprintf("source alphabet: up to %d values within one deviation of the bases (structural positions first)", limit)
	r.outcome(fmt.Sprintf("alphabet-size-%d", len(out)/8*8))
	return out
}

func procC09(t *Target, tier string, r *Result) {
	schema := t.GetSchema()
	depth := 3
	if tier == "thorough" {
		depth = 4
	}
	alpha := t.sourceAlphabet(tier, r)
	// fresh renderings of every source
	fresh := make([]types.Object, len(alpha))
	okSrc := make([]bool, len(alpha))
	for i, s := range alpha {
		o := EmptyObject(schema)
		res := t.callTo(s, &o)
		r.Transitions++
		if res.Panicked || len(res.errs()) > 0 {
			r.outcome("source-not-renderable")
			continue
		}
		fresh[i] = o
		okSrc[i] = true
	}
	type state struct {
		o    types.Object
		path []int
	}
	visited := map[string]bool{}
	var frontier []state
	for i := range alpha {
		if !okSrc[i] {
			continue
		}
		k := CanonO(fresh[i])
		if !visited[k] {
			visited[k] = true
			if mine(fmt.Sprint(i)) {
				frontier = append(frontier, state{fresh[i], []int{i}})
			}
		}
	}
	maxTransitions := 400000
	if tier == "thorough" {
		maxTransitions = 6000000
	}
	levelDone := 1
	for level := 2; level <= depth && len(frontier) > 0; level++ {
		var next []state
		for _, st := range frontier {
			for i, s := range alpha {
				if !okSrc[i] {
					continue
				}
				if r.Transitions > maxTransitions {
					r.Capped = true
					break
				}
				prev := st.o
				o := CopyObj(prev)
				res := t.callTo(s, &o)
				r.Transitions++
				r.Evals++
				w := map[string]interface{}{"kind": "to-sequence", "sources": append(append([]int{}, st.path...), i), "ops": "EmptyO;" + strings.Repeat("SetS;To;", len(st.path)+1), "last_source": CanonS(s), "previous_object": CanonOValues(prev)}
				r.sample(w)
				if res.Panicked {
					r.outcome("panic")
					r.violate("panic", panicShape(t, s), "in-place CopyTo panics: "+res.Panic, w)
					continue
				}
				if e := res.errs(); len(e) > 0 {
					r.outcome("error")
					r.violate("error-diagnostic", "root", "in-place CopyTo returns errors: "+diagText(e), w)
					continue
				}
				refreshWalk(r, w, t.Spec, reflect.ValueOf(s).Elem(), prev, o, fresh[i], "", "")
				// idempotence
				o2 := CopyObj(o)
				res = t.callTo(s, &o2)
				r.Transitions++
				if !res.Panicked && len(res.errs()) == 0 {
					if a, b := CanonO(o), CanonO(o2); a != b {
						r.outcome("not-idempotent")
						r.violate("not-idempotent", idemShape(t, o, o2), "repeating the same CopyTo changes the object:\n   first  "+CanonOValues(o)+"\n   second "+CanonOValues(o2), w)
					} else {
						r.outcome("idempotent")
					}
				}
				k := CanonO(o)
				if !visited[k] {
					visited[k] = true
					next = append(next, state{o, append(append([]int{}, st.path...), i)})
				}
			}
		}
		frontier = next
		if !r.Capped {
			levelDone = level
		}
	}
	r.States += len(visited) / partN
	r.Nontrivial += len(visited) / partN
	r.Bound += fmt.Sprintf("; sequences of up to %d CopyTo calls, states deduplicated on the canonical object", depth)
	r.outcome(fmt.Sprintf("completed-depth-%d", levelDone))
}

// idemShape names the first attribute path at which two objects differ.
func idemShape(t *Target, a, b types.Object) string {
	fa, fb := map[string]string{}, map[string]string{}
	flattenO(a, "", fa)
	flattenO(b, "", fb)
	d := diffKeys(fa, fb)
	if len(d) == 0 {
		return "types-only"
	}
	key := strings.TrimSuffix(d[0], "#")
	// strip indices and translate to a shape chain through the spec
	return shapeOfTFPath(t.Spec, key)
}

func shapeOfTFPath(m *spec.Msg, p string) string {
	out := ""
	cur := m
	for _, seg := range strings.Split(p, ".") {
		name := seg
		if i := strings.Index(seg, "["); i >= 0 {
			name = seg[:i]
		}
		a := findAttr(cur, name)
		if a == nil {
			return out + ">?"
		}
		out = chain(out, a)
		if strings.Contains(seg, "[") {
			out += "[]"
		}
		cur = a.Msg
		if cur == nil {
			break
		}
	}
	return out
}

var _ attr.Value

func init() { procs["C09"] = procC09 }
