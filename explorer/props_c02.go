package explorer

import (
	"fmt"
	"reflect"
	"sort"
	"strings"
	"time"

	"github.com/hashicorp/terraform-plugin-framework/attr"
	"github.com/hashicorp/terraform-plugin-framework/types"

	"verif/spec"
	"verif/tfx"
)

// expectedType is the documented type table applied to the oracle's spec.
func expectedType(m *spec.Msg) types.ObjectType {
	ats := map[string]attr.Type{}
	for _, a := range m.Attrs {
		ats[a.Name] = expectedAttrType(a)
	}
	for _, inj := range m.Injected {
		ats[inj.Name] = injectedType(inj.Type)
	}
	return types.ObjectType{AttrTypes: ats}
}

func injectedType(t string) attr.Type {
	switch {
	case strings.HasSuffix(t, "types.StringType"):
		return types.StringType
	case strings.HasSuffix(t, "types.Int64Type"):
		return types.Int64Type
	case strings.HasSuffix(t, "types.BoolType"):
		return types.BoolType
	case strings.HasSuffix(t, "types.Float64Type"):
		return types.Float64Type
	}
	panic("explorer: unknown injected type " + t)
}

func elemType(a *spec.Attr) attr.Type {
	switch a.TF {
	case "int64":
		return types.Int64Type
	case "float64":
		return types.Float64Type
	case "string":
		return types.StringType
	case "bool":
		return types.BoolType
	case "time":
		return tfx.UseRFC3339Time()
	case "duration":
		return tfx.DurationType{}
	case "object":
		return expectedType(a.Msg)
	}
	panic("explorer: unknown TF type " + a.TF)
}

func expectedAttrType(a *spec.Attr) attr.Type {
	switch a.Kind {
	case spec.Custom:
		return tfx.SentinelType{Suffix: a.Suffix}
	case spec.List, spec.ObjList:
		return types.ListType{ElemType: elemType(a)}
	case spec.Map, spec.ObjMap:
		return types.MapType{ElemType: elemType(a)}
	}
	return elemType(a)
}

// compareTypes reports where two attribute type trees differ.
func compareTypes(r *Result, m *spec.Msg, want, got attr.Type, parentChain, path string) {
	wo, ok1 := want.(types.ObjectType)
	gobj, ok2 := got.(types.ObjectType)
	if ok1 && ok2 {
		for _, n := range sortedTypeKeys(wo.AttrTypes) {
			a := findAttr(m, n)
			ch := parentChain + ">injected"
			if a != nil {
				ch = chain(parentChain, a)
			}
			g, ok := gobj.AttrTypes[n]
			if !ok {
				r.violate("attribute-missing-in-schema", ch, fmt.Sprintf("schema has no attribute %q at %q (expected from field %s)", n, path, pathOf(a)), map[string]string{"kind": "schema", "path": joinPath(path, n)})
				continue
			}
			r.outcome("schema-attr")
			compareAttr(r, a, wo.AttrTypes[n], g, ch, joinPath(path, n))
		}
		for _, n := range sortedTypeKeys(gobj.AttrTypes) {
			if _, ok := wo.AttrTypes[n]; !ok {
				r.violate("unexpected-attribute-in-schema", parentChain+">?", fmt.Sprintf("schema has attribute %q at %q that no field maps to", n, path), map[string]string{"kind": "schema", "path": joinPath(path, n)})
			}
		}
		return
	}
	if !want.Equal(got) {
		r.violate("attribute-type", parentChain, fmt.Sprintf("attribute %q has type %s, documented mapping gives %s", path, typeString(got), typeString(want)), map[string]string{"kind": "schema", "path": path})
	}
}

func pathOf(a *spec.Attr) string {
	if a == nil {
		return "<injected>"
	}
	return a.Path
}

func compareAttr(r *Result, a *spec.Attr, want, got attr.Type, ch, path string) {
	var sub *spec.Msg
	if a != nil {
		sub = a.Msg
	}
	switch w := want.(type) {
	case types.ObjectType:
		compareTypes(r, sub, want, got, ch, path)
	case types.ListType:
		g, ok := got.(types.ListType)
		if !ok {
			r.violate("attribute-type", ch, fmt.Sprintf("attribute %q has type %s, documented mapping gives %s", path, typeString(got), typeString(want)), map[string]string{"kind": "schema", "path": path})
			return
		}
		if _, isObj := w.ElemType.(types.ObjectType); isObj {
			compareTypes(r, sub, w.ElemType, g.ElemType, ch, path+"[]")
		} else if !w.ElemType.Equal(g.ElemType) {
			r.violate("attribute-type", ch, fmt.Sprintf("attribute %q has element type %s, documented mapping gives %s", path, typeString(g.ElemType), typeString(w.ElemType)), map[string]string{"kind": "schema", "path": path})
		}
	case types.MapType:
		g, ok := got.(types.MapType)
		if !ok {
			r.violate("attribute-type", ch, fmt.Sprintf("attribute %q has type %s, documented mapping gives %s", path, typeString(got), typeString(want)), map[string]string{"kind": "schema", "path": path})
			return
		}
		if _, isObj := w.ElemType.(types.ObjectType); isObj {
			compareTypes(r, sub, w.ElemType, g.ElemType, ch, path+"[]")
		} else if !w.ElemType.Equal(g.ElemType) {
			r.violate("attribute-type", ch, fmt.Sprintf("attribute %q has element type %s, documented mapping gives %s", path, typeString(g.ElemType), typeString(w.ElemType)), map[string]string{"kind": "schema", "path": path})
		}
	default:
		if !want.Equal(got) {
			r.violate("attribute-type", ch, fmt.Sprintf("attribute %q has type %s, documented mapping gives %s", path, typeString(got), typeString(want)), map[string]string{"kind": "schema", "path": path})
		}
	}
}

// ---------------------------------------------------------------------------
// flattening for path-wise differences

// flattenO maps every node path of an object to a rendering of the node's own state.
func flattenO(v attr.Value, path string, out map[string]string) {
	switch x := v.(type) {
	case types.Object:
		out[path+"#"] = "O" + flags(x.Null, x.Unknown)
		for k, e := range x.Attrs {
			flattenO(e, joinPath(path, k), out)
		}
	case types.List:
		out[path+"#"] = fmt.Sprintf("L%s%d", flags(x.Null, x.Unknown), len(x.Elems))
		for i, e := range x.Elems {
			flattenO(e, fmt.Sprintf("%s[%d]", path, i), out)
		}
	case types.Map:
		ks := make([]string, 0, len(x.Elems))
		for k := range x.Elems {
			ks = append(ks, k)
		}
		sort.Strings(ks)
		out[path+"#"] = fmt.Sprintf("M%s%v", flags(x.Null, x.Unknown), ks)
		for k, e := range x.Elems {
			flattenO(e, path+"["+k+"]", out)
		}
	default:
		out[path] = CanonO(v)
	}
}

func diffKeys(a, b map[string]string) []string {
	set := map[string]bool{}
	for k, v := range a {
		if w, ok := b[k]; !ok || w != v {
			set[k] = true
		}
	}
	for k := range b {
		if _, ok := a[k]; !ok {
			set[k] = true
		}
	}
	var out []string
	for k := range set {
		out = append(out, k)
	}
	sort.Strings(out)
	return out
}

// flattenS maps every leaf Go path of a struct value to its exact rendering.
func flattenS(v reflect.Value, path string, out map[string]string) {
	switch v.Kind() {
	case reflect.Ptr:
		if v.IsNil() {
			out[path] = "nil"
			return
		}
		flattenS(v.Elem(), path, out)
	case reflect.Interface:
		if v.IsNil() {
			out[path] = "unset"
			return
		}
		w := v.Elem().Elem()
		out[path] = "branch:" + w.Type().Field(0).Name
		flattenS(w.Field(0), path+"."+w.Type().Field(0).Name, out)
	case reflect.Struct:
		if v.Type() == timeType {
			var sb strings.Builder
			renderTime(&sb, v.Interface().(time.Time))
			out[path] = sb.String()
			return
		}
		for _, f := range structFields(v.Type()) {
			fv := v.FieldByIndex(f.Index)
			if f.Anonymous && fv.Kind() == reflect.Ptr && fv.IsNil() {
				// nil nullable-embedded pointer ≡ pointer to an all-zero message (normal form of C04)
				flattenS(reflect.Zero(fv.Type().Elem()), path+"."+f.Name, out)
				continue
			}
			flattenS(fv, path+"."+f.Name, out)
		}
	case reflect.Slice:
		if v.Type().Elem().Kind() == reflect.Uint8 {
			out[path] = fmt.Sprintf("b%q", v.Bytes())
			return
		}
		out[path+"#"] = fmt.Sprintf("len%d", v.Len())
		for i := 0; i < v.Len(); i++ {
			flattenS(v.Index(i), fmt.Sprintf("%s[%d]", path, i), out)
		}
	case reflect.Map:
		ks := []string{}
		for _, k := range v.MapKeys() {
			ks = append(ks, k.String())
		}
		sort.Strings(ks)
		out[path+"#"] = fmt.Sprint(ks)
		for _, k := range v.MapKeys() {
			flattenS(v.MapIndex(k), path+"["+k.String()+"]", out)
		}
	default:
		var sb strings.Builder
		sform{}.render(&sb, v, "", false)
		out[path] = sb.String()
	}
}

// tfPathOf translates the Go path of a builder choice point ("Root.Sub.X",
// "Root.Items[0].S", "Root.Holder.Branch") into the Terraform attribute path
// the oracle's spec predicts, or ok=false when the field is not described
// (excluded or custom).
func tfPathOf(m *spec.Msg, goPath string) (tf string, a *spec.Attr, ok bool) {
	// strip the root segment
	i := strings.IndexAny(goPath, ".[")
	if i < 0 {
		return "", nil, false
	}
	rest := goPath[i:]
	cur := m
	var embedTrail []string
	var holder string
	for rest != "" {
		switch rest[0] {
		case '[':
			j := strings.Index(rest, "]")
			tf += rest[:j+1]
			rest = rest[j+1:]
			continue
		case '.':
			rest = rest[1:]
		}
		j := strings.IndexAny(rest, ".[")
		seg := rest
		if j >= 0 {
			seg = rest[:j]
			rest = rest[j:]
		} else {
			rest = ""
		}
		if cur == nil {
			return "", nil, false
		}
		// find the attribute whose access path continues with seg
		var found *spec.Attr
		for _, at := range cur.Attrs {
			if len(at.Embed) != len(embedTrail) {
				continue
			}
			same := true
			for k := range embedTrail {
				if at.Embed[k].Go != embedTrail[k] {
					same = false
				}
			}
			if !same {
				continue
			}
			if holder != "" {
				if at.Oneof == holder && at.Go == seg {
					found = at
				}
				continue
			}
			if at.Oneof == "" && at.Go == seg {
				found = at
			}
		}
		if found == nil {
			// a holder or an embedded struct on the way?
			isHolder, isEmbed := false, false
			for _, at := range cur.Attrs {
				if holder == "" && at.Oneof == seg {
					isHolder = true
				}
				if len(at.Embed) > len(embedTrail) && at.Embed[len(embedTrail)].Go == seg {
					isEmbed = true
				}
			}
			switch {
			case isHolder:
				holder = seg
				continue
			case isEmbed:
				embedTrail = append(embedTrail, seg)
				continue
			}
			return "", nil, false
		}
		holder = ""
		embedTrail = nil
		a = found
		if tf == "" {
			tf = found.Name
		} else {
			tf += "." + found.Name
		}
		cur = found.Msg
		if found.Kind == spec.Custom {
			return tf, found, rest == ""
		}
	}
	return tf, a, a != nil
}

// onPath: key is p itself or an ancestor of p (a holder, pointer or container on the way to it).
func onPath(key, p string) bool {
	key = strings.TrimSuffix(key, "#")
	if key == p {
		return true
	}
	return strings.HasPrefix(p, key) && len(p) > len(key) && (p[len(key)] == '.' || p[len(key)] == '[')
}

func procC02(t *Target, tier string, r *Result) {
	schema := t.GetSchema()
	// (a) static: the run-time schema type tree against the documented table
	want := expectedType(t.Spec)
	got := schema.AttributeType()
	compareTypes(r, t.Spec, want, got, "", "")
	r.Evals++
	r.States++

	// (b) dynamic probing: one deviation at a scalar leaf position at a time
	for _, base := range []int{BaseMin, BaseFull} {
		baseS, bb := t.buildSOpt(&Chooser{}, base, sOpts{})
		baseO := EmptyObject(schema)
		if res := t.callTo(baseS, &baseO); res.Panicked || len(res.errs()) > 0 {
			r.outcome("base-to-failed")
			r.violate("conversion-fails", panicShape(t, baseS), "CopyTo of a base value into an empty object fails, the mapping cannot be observed: "+res.Panic+diagText(res.errs()), nil)
			continue
		}
		r.Transitions++
		baseBack := t.New()
		if res := t.callFrom(baseO, baseBack); res.Panicked || len(res.errs()) > 0 {
			r.outcome("base-from-failed")
			r.violate("conversion-fails", panicShape(t, baseS), "CopyFrom of a written base value fails, the mapping cannot be observed: "+res.Panic+diagText(res.errs()), nil)
			continue
		}
		r.Transitions++
		fo := map[string]string{}
		flattenO(baseO, "", fo)
		fs := map[string]string{}
		flattenS(reflect.ValueOf(baseBack).Elem(), t.Root, fs)
		points := bb.Points
		arity := append([]int{}, bb.Ch.Arity...)
		for i, p := range points {
			if strings.Contains(p, "/") {
				continue // container-level point; only scalar leaves are probed
			}
			for alt := 1; alt < arity[i]; alt++ {
				prefix := make([]int, i+1)
				prefix[i] = alt
				s, _ := t.buildSOpt(Replay(prefix), base, sOpts{})
				w := SWitness{Kind: "struct", Base: base, Choices: prefix, Value: CanonS(s), Ops: []string{"SetS", "EmptyO", "To", "FreshS", "From"}}
				r.Evals++
				r.States++
				r.sample(w)
				o := EmptyObject(schema)
				if res := t.callTo(s, &o); res.Panicked || len(res.errs()) > 0 {
					r.outcome("probe-to-failed")
					r.violate("conversion-fails", panicShape(t, s), "CopyTo of a probe value fails: "+res.Panic+diagText(res.errs()), w)
					continue
				}
				r.Transitions++
				tfp, a, described := tfPathOf(t.Spec, p)
				po := map[string]string{}
				flattenO(o, "", po)
				d := diffKeys(fo, po)
				ch := "excluded"
				if a != nil {
					ch = Desc(a)
				}
				if a != nil && a.Kind == spec.Custom {
					r.outcome("custom-leaf")
					continue
				}
				if !described {
					r.outcome("excluded-leaf")
					if len(d) != 0 {
						r.violate("undescribed-field-leaks", ch, fmt.Sprintf("changing %s (not described by the schema) changes attributes %v", p, d), w)
					}
					continue
				}
				r.outcome("probed-leaf")
				if len(d) != 1 || d[0] != tfp {
					r.violate("wrong-attribute-changed", ch, fmt.Sprintf("writing a distinctive value into %s changes attributes %v, expected exactly [%s]", p, d, tfp), w)
					continue
				}
				back := t.New()
				if res := t.callFrom(o, back); res.Panicked || len(res.errs()) > 0 {
					r.outcome("probe-from-failed")
					r.violate("conversion-fails", panicShape(t, s), "CopyFrom of a written probe value fails: "+res.Panic+diagText(res.errs()), w)
					continue
				}
				r.Transitions++
				ps := map[string]string{}
				flattenS(reflect.ValueOf(back).Elem(), t.Root, ps)
				ds := diffKeys(fs, ps)
				bad := len(ds) == 0
				for _, k := range ds {
					if !onPath(k, p) {
						bad = true
					}
				}
				if bad {
					r.violate("wrong-field-changed", ch, fmt.Sprintf("reading back the change of %s changes fields %v, expected exactly [%s]", p, ds, p), w)
				}
			}
		}
	}
	r.Nontrivial = r.States
	r.Bound = "every scalar leaf position of two bases x every alternative value of its domain"
}

// procSchema is the static part of C02 alone (used by C18 to confirm that no
// attribute is silently missing once the offending field is excluded).
func procSchema(t *Target, tier string, r *Result) {
	compareTypes(r, t.Spec, expectedType(t.Spec), t.GetSchema().AttributeType(), "", "")
	r.Evals++
	r.States++
	r.Transitions++
	r.Nontrivial++
	r.sample(map[string]string{"kind": "schema-walk", "case": t.Label, "root": t.Root})
}

func init() {
	procs["C02"] = procC02
	procs["SCHEMA"] = procSchema
}
