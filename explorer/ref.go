package explorer

import (
	"fmt"
	"reflect"
	"sort"
	"time"

	"github.com/hashicorp/terraform-plugin-framework/attr"
	"github.com/hashicorp/terraform-plugin-framework/types"

	"verif/spec"
	"verif/tfx"
)

// nodeState of an attr.Value: (null, unknown).
func nullOrUnknown(v attr.Value) bool { return v == nil || v.IsNull() || v.IsUnknown() }

// primGo converts the payload of a known primitive attr.Value to the Go type
// of the field, the way a correct CopyFrom must (plain Go conversion).
func primGo(v attr.Value, ft reflect.Type) (reflect.Value, bool) {
	var raw reflect.Value
	switch x := v.(type) {
	case types.String:
		raw = reflect.ValueOf(x.Value)
	case types.Int64:
		raw = reflect.ValueOf(x.Value)
	case types.Float64:
		raw = reflect.ValueOf(x.Value)
	case types.Bool:
		raw = reflect.ValueOf(x.Value)
	case tfx.TimeValue:
		raw = reflect.ValueOf(x.Value)
	case tfx.DurationValue:
		raw = reflect.ValueOf(x.Value)
	default:
		return reflect.Value{}, false
	}
	if ft.Kind() == reflect.Ptr {
		ft = ft.Elem()
	}
	if !raw.Type().ConvertibleTo(ft) {
		return reflect.Value{}, false
	}
	return raw.Convert(ft), true
}

func exact(v reflect.Value) string {
	var sb stringsBuilder
	sform{}.render(&sb.Builder, v, "", false)
	return sb.String()
}

// Mismatch is one disagreement between the implementation and a reference rule.
type Mismatch struct {
	Kind   string
	Chain  string
	Detail string
}

// refFrom checks struct value sv (result of CopyFrom of object o into some
// target) against the reference reading of o: known values are converted,
// null/unknown values leave zero / nil / empty. multiKnown groups (several
// known branches of one oneof) are not judged.
func refFrom(m *spec.Msg, sv reflect.Value, o types.Object, parentChain, tfPath string, out *[]Mismatch) {
	// count known branches per oneof group
	knownIn := map[string]int{}
	for _, a := range m.Attrs {
		if a.Oneof != "" {
			if v, ok := o.Attrs[a.Name]; ok && !nullOrUnknown(v) {
				knownIn[a.Oneof]++
			}
		}
	}
	judgedHolder := map[string]bool{}
	for _, a := range m.Attrs {
		ch := chain(parentChain, a)
		p := joinPath(tfPath, a.Name)
		v, ok := o.Attrs[a.Name]
		if !ok || v == nil || a.Kind == spec.Custom || a.Placeholder {
			continue
		}
		if a.Oneof != "" {
			if knownIn[a.Oneof] > 1 {
				continue
			}
			if knownIn[a.Oneof] == 0 && !judgedHolder[a.Oneof] {
				judgedHolder[a.Oneof] = true
				if h, ok := oneofHolder(sv, a); ok && !h.IsNil() {
					*out = append(*out, Mismatch{"oneof-not-reset", ch, fmt.Sprintf("all branches of oneof %s are null/unknown but the holder is %s", a.Oneof, h.Elem().Type())})
				}
			}
		}
		f, fs := goField(sv, a)
		refFromAttr(a, f, fs, v, ch, p, out)
	}
}

func refFromAttr(a *spec.Attr, f reflect.Value, fs fieldState, v attr.Value, ch, p string, out *[]Mismatch) {
	add := func(kind, format string, args ...interface{}) {
		*out = append(*out, Mismatch{kind, ch, fmt.Sprintf("attribute %s: ", p) + fmt.Sprintf(format, args...)})
	}
	absent := nullOrUnknown(v)
	if absent {
		switch fs {
		case fsNilEmbed, fsInactive, fsPlaceholder:
			return // the field reads as zero
		}
		switch a.Kind {
		case spec.Prim:
			if a.Ptr {
				if !f.IsNil() {
					add("not-reset", "is null/unknown but the pointer field holds %s", exact(f))
				}
			} else if a.Oneof != "" {
				// an active branch for a null/unknown attribute
				add("not-reset", "is null/unknown but the oneof holds this branch with %s", exact(f))
			} else if !(sform{normal: true}).isNormZero(f, "") {
				add("not-reset", "is null/unknown but the field holds %s", exact(f))
			}
		case spec.List, spec.Map, spec.ObjList, spec.ObjMap:
			if f.Len() != 0 {
				add("not-reset", "is null/unknown but the collection has %d entries", f.Len())
			}
		case spec.Obj:
			if a.Oneof != "" {
				add("not-reset", "is null/unknown but the oneof holds this branch")
			} else if a.Ptr {
				if !f.IsNil() {
					add("not-reset", "is null/unknown but the message pointer is not nil")
				}
			} else if !(sform{normal: true}).isNormZero(f, "") {
				add("not-reset", "is null/unknown but the message holds %s", exact(f))
			}
		}
		return
	}
	// known, non-null
	switch fs {
	case fsNilEmbed:
		add("known-value-dropped", "is known but the embedded parent is nil")
		return
	case fsInactive:
		add("known-branch-not-selected", "is the known branch but the oneof does not hold it")
		return
	case fsPlaceholder:
		return
	}
	switch a.Kind {
	case spec.Prim:
		fv := f
		if a.Ptr {
			if f.IsNil() {
				add("known-value-dropped", "is known but the pointer field is nil")
				return
			}
			fv = f.Elem()
		}
		want, ok := primGo(v, fv.Type())
		if !ok {
			return
		}
		if exact(want) != exact(fv) {
			add("wrong-value", "holds %s but the field reads %s", CanonO(v), exact(fv))
		}
	case spec.List:
		l, ok := v.(types.List)
		if !ok {
			return
		}
		if f.Len() != len(l.Elems) {
			add("wrong-length", "has %d elements but the field has %d", len(l.Elems), f.Len())
			return
		}
		for i, e := range l.Elems {
			refElemPrim(a, f.Index(i), e, ch, fmt.Sprintf("%s[%d]", p, i), out)
		}
	case spec.Map:
		mp, ok := v.(types.Map)
		if !ok {
			return
		}
		if !sameKeys(f, mp.Elems) {
			add("wrong-keys", "has keys %v but the field has %v", keysOf(mp.Elems), goKeys(f))
			return
		}
		for k, e := range mp.Elems {
			refElemPrim(a, f.MapIndex(reflect.ValueOf(k)), e, ch, p+"["+k+"]", out)
		}
	case spec.Obj:
		ov, ok := v.(types.Object)
		if !ok {
			return
		}
		fv := f
		if f.Kind() == reflect.Ptr {
			if f.IsNil() {
				add("known-value-dropped", "is a known object but the message pointer is nil")
				return
			}
			fv = f.Elem()
		}
		if a.Msg != nil && !a.Msg.Empty {
			refFrom(a.Msg, fv, ov, ch, p, out)
		}
	case spec.ObjList:
		l, ok := v.(types.List)
		if !ok {
			return
		}
		if f.Len() != len(l.Elems) {
			add("wrong-length", "has %d elements but the field has %d", len(l.Elems), f.Len())
			return
		}
		for i, e := range l.Elems {
			refElemObj(a, f.Index(i), e, ch, fmt.Sprintf("%s[%d]", p, i), out)
		}
	case spec.ObjMap:
		mp, ok := v.(types.Map)
		if !ok {
			return
		}
		if !sameKeys(f, mp.Elems) {
			add("wrong-keys", "has keys %v but the field has %v", keysOf(mp.Elems), goKeys(f))
			return
		}
		for k, e := range mp.Elems {
			refElemObj(a, f.MapIndex(reflect.ValueOf(k)), e, ch, p+"["+k+"]", out)
		}
	}
}

func refElemPrim(a *spec.Attr, fv reflect.Value, e attr.Value, ch, p string, out *[]Mismatch) {
	add := func(kind, format string, args ...interface{}) {
		*out = append(*out, Mismatch{kind, ch + "[]", fmt.Sprintf("element %s: ", p) + fmt.Sprintf(format, args...)})
	}
	if nullOrUnknown(e) {
		zero := false
		if fv.Kind() == reflect.Ptr {
			zero = fv.IsNil()
		} else {
			zero = (sform{normal: true}).isNormZero(fv, "")
		}
		if !zero {
			add("not-reset", "is null/unknown but the element holds %s", exact(fv))
		}
		return
	}
	if fv.Kind() == reflect.Ptr {
		if fv.IsNil() {
			add("known-value-dropped", "is known but the element pointer is nil")
			return
		}
		fv = fv.Elem()
	}
	want, ok := primGo(e, fv.Type())
	if ok && exact(want) != exact(fv) {
		add("wrong-value", "holds %s but the element reads %s", CanonO(e), exact(fv))
	}
}

func refElemObj(a *spec.Attr, fv reflect.Value, e attr.Value, ch, p string, out *[]Mismatch) {
	add := func(kind, format string, args ...interface{}) {
		*out = append(*out, Mismatch{kind, ch + "[]", fmt.Sprintf("element %s: ", p) + fmt.Sprintf(format, args...)})
	}
	if nullOrUnknown(e) {
		if fv.Kind() == reflect.Ptr {
			if !fv.IsNil() {
				add("not-reset", "is null/unknown but the element pointer is not nil")
			}
		} else if !(sform{normal: true}).isNormZero(fv, "") {
			add("not-reset", "is null/unknown but the element holds %s", exact(fv))
		}
		return
	}
	ov, ok := e.(types.Object)
	if !ok {
		return
	}
	if fv.Kind() == reflect.Ptr {
		if fv.IsNil() {
			add("known-value-dropped", "is a known object but the element pointer is nil")
			return
		}
		fv = fv.Elem()
	}
	if a.Msg != nil && !a.Msg.Empty {
		// map values obtained by MapIndex are not addressable; copy
		if !fv.CanAddr() {
			c := reflect.New(fv.Type()).Elem()
			c.Set(fv)
			fv = c
		}
		refFrom(a.Msg, fv, ov, ch+"[]", p, out)
	}
}

func keysOf(m map[string]attr.Value) []string {
	ks := make([]string, 0, len(m))
	for k := range m {
		ks = append(ks, k)
	}
	sort.Strings(ks)
	return ks
}

func goKeys(f reflect.Value) []string {
	ks := []string{}
	for _, k := range f.MapKeys() {
		ks = append(ks, k.String())
	}
	sort.Strings(ks)
	return ks
}

func sameKeys(f reflect.Value, m map[string]attr.Value) bool {
	return fmt.Sprint(goKeys(f)) == fmt.Sprint(keysOf(m))
}

// attrOfField renders what a correct CopyTo writes as the payload of a
// primitive attribute for a Go value (used by the To side of C07/C09).
func attrPayload(v attr.Value) string {
	switch x := v.(type) {
	case types.String:
		return fmt.Sprintf("%q", x.Value)
	case types.Int64:
		return fmt.Sprint(x.Value)
	case types.Float64:
		return fmt.Sprintf("%x", x.Value)
	case types.Bool:
		return fmt.Sprint(x.Value)
	case tfx.TimeValue:
		var sb stringsBuilder
		renderTime(&sb.Builder, x.Value)
		return sb.String()
	case tfx.DurationValue:
		return fmt.Sprint(int64(x.Value))
	}
	return CanonO(v)
}

// goPayload renders the payload a Go scalar field value must produce.
func goPayload(f reflect.Value, v attr.Value) (string, bool) {
	if f.Kind() == reflect.Ptr {
		if f.IsNil() {
			return "", false
		}
		f = f.Elem()
	}
	switch v.(type) {
	case types.String:
		if f.Kind() == reflect.Slice {
			return fmt.Sprintf("%q", string(f.Bytes())), true
		}
		return fmt.Sprintf("%q", f.String()), true
	case types.Int64:
		switch f.Kind() {
		case reflect.Uint, reflect.Uint32, reflect.Uint64:
			return fmt.Sprint(int64(f.Uint())), true
		}
		return fmt.Sprint(f.Int()), true
	case types.Float64:
		return fmt.Sprintf("%x", f.Float()), true
	case types.Bool:
		return fmt.Sprint(f.Bool()), true
	case tfx.TimeValue:
		var sb stringsBuilder
		renderTime(&sb.Builder, f.Interface().(time.Time))
		return sb.String(), true
	case tfx.DurationValue:
		return fmt.Sprint(f.Int()), true
	}
	return "", false
}
