// Package explorer is the library linked into the scratch harness binary: the
// bounded exhaustive explorers over the real generated converters.
package explorer

import (
	"bufio"
	"context"
	"encoding/json"
	"flag"
	"fmt"
	"os"
	"reflect"
	"sort"
	"strings"
	"time"

	"github.com/hashicorp/terraform-plugin-framework/diag"
	"github.com/hashicorp/terraform-plugin-framework/tfsdk"
	"github.com/hashicorp/terraform-plugin-framework/types"

	"verif/spec"
)

// Target is one selected root message of one generated case.
type Target struct {
	Case, Label, Root string
	Group, Variant    string
	SpecJSON          string
	Tags              map[string]string
	New               func() interface{}
	Schema            func(context.Context) (tfsdk.Schema, diag.Diagnostics)
	From              func(context.Context, types.Object, interface{}) diag.Diagnostics
	To                func(context.Context, interface{}, *types.Object) diag.Diagnostics

	Spec   *spec.Msg
	schema *tfsdk.Schema
}

var targets []*Target

// partIdx/partN: the current work unit processes the enumerated items whose
// canonical form hashes to partIdx modulo partN.
var partIdx, partN = 0, 1

func mine(key string) bool {
	return partN <= 1 || int(nameHash(key)%uint32(partN)) == partIdx
}

// Seed is VERIF_SEED; it only drives the supplementary random values of C19.
var Seed int

// Register is called from the init functions of the generated reg.go files.
func Register(t *Target) {
	t.Spec = &spec.Msg{}
	if err := json.Unmarshal([]byte(t.SpecJSON), t.Spec); err != nil {
		panic(err)
	}
	targets = append(targets, t)
}

// GetSchema calls the generated schema function once and caches the result.
func (t *Target) GetSchema() tfsdk.Schema {
	if t.schema == nil {
		s, d := t.Schema(bg)
		if d.HasError() {
			panic(fmt.Sprintf("GenSchema%s returned diagnostics: %v", t.Root, d))
		}
		t.schema = &s
	}
	return *t.schema
}

// Violation is one property violation found on one target.
type Violation struct {
	Prop    string      `json:"prop"`
	Kind    string      `json:"kind"`
	Shape   string      `json:"shape"`
	Msg     string      `json:"msg"`
	Count   int         `json:"count"`
	Witness interface{} `json:"witness"`
}

// Result is what one property procedure reports for one target.
type Result struct {
	Prop        string            `json:"prop"`
	Case        string            `json:"case"`
	Label       string            `json:"label"`
	Root        string            `json:"root"`
	Group       string            `json:"group,omitempty"`
	Variant     string            `json:"variant,omitempty"`
	Tags        map[string]string `json:"tags,omitempty"`
	States      int               `json:"states"`
	Transitions int               `json:"transitions"`
	Evals       int               `json:"evals"`
	Nontrivial  int               `json:"nontrivial"`
	Outcomes    map[string]int    `json:"outcomes,omitempty"`
	Violations  []*Violation      `json:"violations,omitempty"`
	Samples     []interface{}     `json:"samples,omitempty"`
	Capped      bool              `json:"capped,omitempty"`
	Bound       string            `json:"bound,omitempty"`
	HarnessErr  string            `json:"harness_error,omitempty"`
	Millis      int64             `json:"ms"`
	// Digests: for differential oracles across variants (input key -> canonical output digest).
	Digests map[string]string `json:"digests,omitempty"`

	seenViol map[string]*Violation
}

func newResult(prop string, t *Target) *Result {
	return &Result{Prop: prop, Case: t.Case, Label: t.Label, Root: t.Root, Group: t.Group, Variant: t.Variant, Tags: t.Tags, Outcomes: map[string]int{}, seenViol: map[string]*Violation{}}
}

func (r *Result) outcome(k string) { r.Outcomes[k]++ }

func (r *Result) violate(kind, shape, msg string, witness interface{}) {
	key := kind + "|" + shape
	if v, ok := r.seenViol[key]; ok {
		v.Count++
		return
	}
	v := &Violation{Prop: r.Prop, Kind: kind, Shape: shape, Msg: msg, Count: 1, Witness: witness}
	r.seenViol[key] = v
	r.Violations = append(r.Violations, v)
}

func (r *Result) sample(s interface{}) {
	if len(r.Samples) < 3 {
		r.Samples = append(r.Samples, s)
	}
}

// Proc is a property procedure.
type Proc func(t *Target, tier string, r *Result)

var procs = map[string]Proc{}

// Main is the entry point of the harness binary.
func Main() {
	prop := flag.String("prop", "", "property id")
	tier := flag.String("tier", "quick", "quick|thorough")
	shard := flag.String("shard", "0/1", "i/n")
	only := flag.String("only", "", "restrict to a case id")
	replay := flag.String("replay", "", "replay file")
	flag.IntVar(&Seed, "seed", 0, "VERIF_SEED")
	flag.Parse()
	if *replay != "" {
		os.Exit(replayFile(*replay))
	}
	var si, sn int
	fmt.Sscanf(*shard, "%d/%d", &si, &sn)
	if sn <= 0 {
		sn = 1
	}
	sort.SliceStable(targets, func(i, j int) bool {
		if targets[i].Case != targets[j].Case {
			return targets[i].Case < targets[j].Case
		}
		return targets[i].Root < targets[j].Root
	})
	w := bufio.NewWriter(os.Stdout)
	defer w.Flush()
	enc := json.NewEncoder(w)
	if *prop == "list" {
		for _, t := range targets {
			enc.Encode(map[string]string{"case": t.Case, "root": t.Root, "label": t.Label})
		}
		return
	}
	ids := strings.Split(*prop, ",")
	// work units: (target, part); heavy targets are split into parts that
	// partition the enumerated items by hash of their canonical form
	type unit struct {
		t         *Target
		part, of_ int
	}
	var units []unit
	for _, t := range targets {
		if *only != "" && t.Case != *only {
			continue
		}
		n := 1
		if c := t.Tags["class"]; (c == "sink" || c == "multiroot") && *prop != "DIGEST" {
			n = 8
		}
		for p := 0; p < n; p++ {
			units = append(units, unit{t, p, n})
		}
	}
	// heavy units first so they spread over the workers
	sort.SliceStable(units, func(i, j int) bool { return units[i].of_ > units[j].of_ })
	for i, u := range units {
		if i%sn != si {
			continue
		}
		t := u.t
		partIdx, partN = u.part, u.of_
		for _, id := range ids {
			p, ok := procs[id]
			if !ok {
				fmt.Fprintln(os.Stderr, "unknown property procedure", id)
				os.Exit(2)
			}
			r := newResult(id, t)
			t0 := time.Now()
			func() {
				defer func() {
					if e := recover(); e != nil {
						r.HarnessErr = fmt.Sprintf("harness panic: %v", e)
					}
				}()
				p(t, *tier, r)
			}()
			r.Millis = time.Since(t0).Milliseconds()
			enc.Encode(r)
			w.Flush()
		}
	}
}

// ---------------------------------------------------------------------------
// calling the generated code

type callResult struct {
	Diags    diag.Diagnostics
	Panicked bool
	Panic    string
}

func (c callResult) errs() []diag.Diagnostic {
	var out []diag.Diagnostic
	for _, d := range c.Diags {
		if d.Severity() == diag.SeverityError {
			out = append(out, d)
		}
	}
	return out
}

func (t *Target) callTo(s interface{}, o *types.Object) (res callResult) {
	defer func() {
		if e := recover(); e != nil {
			res.Panicked = true
			res.Panic = fmt.Sprint(e)
		}
	}()
	res.Diags = t.To(bg, s, o)
	return
}

func (t *Target) callFrom(o types.Object, s interface{}) (res callResult) {
	defer func() {
		if e := recover(); e != nil {
			res.Panicked = true
			res.Panic = fmt.Sprint(e)
		}
	}()
	res.Diags = t.From(bg, o, s)
	return
}

func diagText(ds []diag.Diagnostic) string {
	var parts []string
	for _, d := range ds {
		parts = append(parts, d.Summary()+": "+d.Detail())
	}
	return strings.Join(parts, " | ")
}

// buildS builds one struct value.
func (t *Target) buildS(ch *Chooser, base int, only func(string) bool) (interface{}, *SBuilder) {
	v := t.New()
	b := &SBuilder{Ch: ch, Base: base, Only: only}
	b.Build(reflect.ValueOf(v).Elem(), t.Root)
	return v, b
}

// exclFor derives the comparison exclusion predicate from the spec.
func exclFor(m *spec.Msg) Excl {
	set := map[string]bool{}
	var walk func(m *spec.Msg, prefix string)
	join := func(a, b string) string {
		if a == "" {
			return b
		}
		return a + "." + b
	}
	walk = func(m *spec.Msg, prefix string) {
		for _, e := range m.Excluded {
			if e.Oneof != "" {
				set[join(join(prefix, e.Oneof), e.Go)] = true
			} else {
				set[join(prefix, e.Go)] = true
			}
		}
		for _, a := range m.Attrs {
			if a.Kind == spec.Custom {
				// custom-type fields are the hooks' business
				p := prefix
				for _, st := range a.Embed {
					_ = st
				}
				set[join(p, a.Go)] = true
			}
			if a.Msg != nil {
				p := prefix
				if a.Oneof != "" {
					p = join(p, a.Oneof)
				}
				walk(a.Msg, join(p, a.Go))
			}
		}
	}
	walk(m, "")
	if len(set) == 0 {
		return nil
	}
	return func(p string) bool { return set[p] }
}
