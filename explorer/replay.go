package explorer

import (
	"encoding/json"
	"fmt"
	"io/ioutil"
)

// ReplayFile is the on-disk form of a violation witness for the harness.
type ReplayFile struct {
	Property string          `json:"property"`
	Case     string          `json:"case"`
	Label    string          `json:"label"`
	Root     string          `json:"root"`
	Kind     string          `json:"kind"`
	Shape    string          `json:"shape"`
	Msg      string          `json:"msg"`
	Witness  json.RawMessage `json:"witness"`
}

// replayFile re-runs the property procedure of a replay file on its case only
// and reports whether the same violation (kind, shape) shows again.
func replayFile(path string) int {
	b, err := ioutil.ReadFile(path)
	if err != nil {
		fmt.Println("replay:", err)
		return 2
	}
	var rf ReplayFile
	if err := json.Unmarshal(b, &rf); err != nil {
		fmt.Println("replay:", err)
		return 2
	}
	for _, t := range targets {
		if t.Label != rf.Label || t.Root != rf.Root {
			continue
		}
		p := procs[rf.Property]
		r := newResult(rf.Property, t)
		p(t, "quick", r)
		for _, v := range r.Violations {
			if v.Kind == rf.Kind && v.Shape == rf.Shape {
				fmt.Printf("REPRODUCED property=%s kind=%s shape=%s\n%s\n", rf.Property, v.Kind, v.Shape, v.Msg)
				return 1
			}
		}
		fmt.Println("NOT-REPRODUCED")
		return 0
	}
	fmt.Println("replay: case not in this binary")
	return 2
}
