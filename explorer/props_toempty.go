package explorer

import (
	"fmt"
	"math/rand"
	"reflect"
	"strings"

	"github.com/hashicorp/terraform-plugin-framework/attr"
	"github.com/hashicorp/terraform-plugin-framework/types"
	"github.com/hashicorp/terraform-plugin-go/tftypes"

	"verif/spec"
)

// SWitness identifies one enumerated struct value.
type SWitness struct {
	Kind    string   `json:"kind"`
	Base    int      `json:"base"`
	Choices []int    `json:"choices"`
	Points  []string `json:"points,omitempty"`
	Value   string   `json:"value"`
	Ops     []string `json:"ops,omitempty"`
}

type tierCfg struct {
	fullLimit int // use the full product when it has at most this many executions
	k         int // deviation bound otherwise
	budget    int // executions per base
}

func tierOf(tier string) tierCfg {
	if tier == "thorough" {
		return tierCfg{fullLimit: 60000, k: 3, budget: 400000}
	}
	return tierCfg{fullLimit: 6000, k: 2, budget: 40000}
}

// sOpts tunes the struct enumeration.
type sOpts struct {
	Wide  bool
	Seed  int64
	RandN int
	K     int // 0: tier default
	Bases []int
	Only  func(path string) bool
}

func (t *Target) buildSOpt(ch *Chooser, base int, o sOpts) (interface{}, *SBuilder) {
	v := t.New()
	b := &SBuilder{Ch: ch, Base: base, Only: o.Only, Wide: o.Wide}
	if o.RandN > 0 {
		b.Rand = rand.New(rand.NewSource(o.Seed))
		b.RandN = o.RandN
	}
	b.Build(reflect.ValueOf(v).Elem(), t.Root)
	return v, b
}

// forEachS enumerates the struct alphabet of the target (DESIGN.md §3.6) and
// calls fn once per distinct value.
func (t *Target) forEachS(tier string, r *Result, fn func(s interface{}, w SWitness)) {
	t.forEachSOpt(tier, r, sOpts{}, fn)
}

func (t *Target) forEachSOpt(tier string, r *Result, o sOpts, fn func(s interface{}, w SWitness)) {
	tc := tierOf(tier)
	if o.K > 0 {
		tc.k = o.K
	}
	bases := o.Bases
	if bases == nil {
		bases = []int{BaseZero, BaseMin, BaseFull}
	}
	_, capped := Explore(-1, tc.fullLimit, func(ch *Chooser) { t.buildSOpt(ch, BaseZero, o) })
	seen := map[string]bool{}
	run := func(base int) func(ch *Chooser) {
		return func(ch *Chooser) {
			s, b := t.buildSOpt(ch, base, o)
			key := CanonS(s)
			r.Evals++
			if seen[key] {
				return
			}
			seen[key] = true
			if !mine(key) {
				return
			}
			fn(s, SWitness{Kind: "struct", Base: base, Choices: append([]int{}, ch.Choices...), Points: b.Points, Value: key})
		}
	}
	if !capped {
		Explore(-1, 0, run(BaseZero))
		r.Bound = "full product of the value domains"
	} else {
		// choose the largest deviation bound whose execution count fits the budget
		probe := &Chooser{}
		t.buildSOpt(probe, BaseFull, o)
		alts := 0
		for _, a := range probe.Arity {
			alts += a - 1
		}
		k := tc.k
		for k > 1 && estimate(alts, k) > tc.budget {
			k--
		}
		for _, base := range bases {
			_, c := Explore(k, tc.budget, run(base))
			if c {
				r.Capped = true
			}
		}
		r.Bound = fmt.Sprintf("deviation bound k=%d around %d bases", k, len(bases))
	}
	r.States += len(seen) / partN
	r.Nontrivial = len(seen) / partN
}

// estimate bounds the number of executions with at most k deviations among alts alternatives.
func estimate(alts, k int) int {
	n, term := 1, 1
	for i := 1; i <= k; i++ {
		term = term * alts / i
		n += term
		if n > 1<<40 {
			return n
		}
	}
	return n
}

func zeroOf(t attr.Type) (attr.Value, error) {
	return t.ValueFromTerraform(bg, tftypes.NewValue(t.TerraformType(bg), nil))
}

// conform checks value v against schema type t recursively (C03).
func conform(r *Result, w interface{}, t attr.Type, v attr.Value, a *spec.Attr, ch string, path string) {
	z, err := zeroOf(t)
	if err != nil {
		r.HarnessErr = fmt.Sprintf("zero value of %s: %v", t, err)
		return
	}
	if v == nil {
		r.violate("nil-value", ch, fmt.Sprintf("attribute %s holds a nil attr.Value", path), w)
		return
	}
	if reflect.TypeOf(v) != reflect.TypeOf(z) {
		r.violate("wrong-value-type", ch, fmt.Sprintf("attribute %s holds %T, schema type %s has values of %T", path, v, t, z), w)
		return
	}
	if !v.Type(bg).Equal(t) {
		r.violate("wrong-type", ch, fmt.Sprintf("attribute %s has type %s, schema says %s", path, typeString(v.Type(bg)), typeString(t)), w)
	}
	if v.IsUnknown() {
		r.violate("unknown", ch, fmt.Sprintf("attribute %s is unknown after CopyTo", path), w)
	}
	var sub *spec.Msg
	if a != nil {
		sub = a.Msg
	}
	switch x := v.(type) {
	case types.Object:
		if x.Null {
			return
		}
		ot, ok := t.(types.ObjectType)
		if !ok {
			return
		}
		conformObject(r, w, ot, x, sub, ch, path)
	case types.List:
		lt, ok := t.(types.ListType)
		if !ok {
			return
		}
		for i, e := range x.Elems {
			conform(r, w, lt.ElemType, e, elemAttr(a), ch+"[]", fmt.Sprintf("%s[%d]", path, i))
		}
	case types.Map:
		mt, ok := t.(types.MapType)
		if !ok {
			return
		}
		for k, e := range x.Elems {
			conform(r, w, mt.ElemType, e, elemAttr(a), ch+"[]", path+"["+k+"]")
		}
	}
}

func conformObject(r *Result, w interface{}, ot types.ObjectType, o types.Object, m *spec.Msg, parentChain, path string) {
	for _, name := range sortedTypeKeys(ot.AttrTypes) {
		a := findAttr(m, name)
		if a == nil {
			continue // injected: the converters never touch it
		}
		v, ok := o.Attrs[name]
		if !ok {
			r.violate("missing-attribute", chain(parentChain, a), fmt.Sprintf("attribute %s is absent after CopyTo", joinPath(path, name)), w)
			continue
		}
		conform(r, w, ot.AttrTypes[name], v, a, chain(parentChain, a), joinPath(path, name))
	}
}

// fillInjected returns a copy of o in which schema attributes without a value are set to null, at every object level.
func fillInjected(t attr.Type, v attr.Value) attr.Value {
	switch x := v.(type) {
	case types.Object:
		ot, ok := t.(types.ObjectType)
		if !ok || x.Null || x.Unknown {
			return v
		}
		n := types.Object{Null: x.Null, Unknown: x.Unknown, AttrTypes: x.AttrTypes, Attrs: map[string]attr.Value{}}
		for k, e := range x.Attrs {
			if at, ok := ot.AttrTypes[k]; ok {
				n.Attrs[k] = fillInjected(at, e)
			} else {
				n.Attrs[k] = e
			}
		}
		for k, at := range ot.AttrTypes {
			if _, ok := n.Attrs[k]; !ok {
				if z, err := zeroOf(at); err == nil {
					n.Attrs[k] = z
				}
			}
		}
		return n
	case types.List:
		lt, ok := t.(types.ListType)
		if !ok || x.Elems == nil {
			return v
		}
		es := make([]attr.Value, len(x.Elems))
		for i, e := range x.Elems {
			es[i] = fillInjected(lt.ElemType, e)
		}
		x.Elems = es
		return x
	case types.Map:
		mt, ok := t.(types.MapType)
		if !ok || x.Elems == nil {
			return v
		}
		es := make(map[string]attr.Value, len(x.Elems))
		for k, e := range x.Elems {
			es[k] = fillInjected(mt.ElemType, e)
		}
		x.Elems = es
		return x
	}
	return v
}

func accepts(r *Result, w interface{}, st attr.Type, o types.Object) {
	defer func() {
		if e := recover(); e != nil {
			r.violate("not-convertible", "root", fmt.Sprintf("ToTerraformValue of the result panics: %v", e), w)
		}
	}()
	filled := fillInjected(st, o)
	tv, err := filled.ToTerraformValue(bg)
	if err != nil {
		r.violate("not-convertible", "root", "ToTerraformValue of the result fails: "+err.Error(), w)
		return
	}
	if !tv.Type().Equal(st.TerraformType(bg)) {
		r.violate("wrong-terraform-type", "root", fmt.Sprintf("result converts to %s, schema type is %s", tv.Type(), st.TerraformType(bg)), w)
		return
	}
	if _, err := st.ValueFromTerraform(bg, tv); err != nil {
		r.violate("not-accepted", "root", "schema type rejects the converted result: "+err.Error(), w)
	}
}

func procC03(t *Target, tier string, r *Result) {
	schema := t.GetSchema()
	st := schema.AttributeType().(types.ObjectType)
	t.forEachS(tier, r, func(s interface{}, w SWitness) {
		w.Ops = []string{"SetS", "EmptyO", "To"}
		o := EmptyObject(schema)
		res := t.callTo(s, &o)
		r.Transitions++
		r.sample(w)
		if res.Panicked {
			r.outcome("panic")
			r.violate("panic", panicShape(t, s), "CopyTo into an empty object panics: "+res.Panic, w)
			return
		}
		if e := res.errs(); len(e) > 0 {
			r.outcome("error-diag")
			r.violate("error-diagnostic", "root", "CopyTo into an empty object returns errors: "+diagText(e), w)
			return
		}
		r.outcome("ok")
		conformObject(r, w, st, o, t.Spec, "", "")
		accepts(r, w, st, o)
	})
}

// panicShape attributes a panic to a cause class computed from the source
// value (the failing statement itself is not observable): a nil nullable
// embedded pointer somewhere in the value, else the shape class of the case.
func panicShape(t *Target, s interface{}) string {
	if nestedNullableEmbeds(t.Spec) {
		// a nullable embedded message inside a nullable embedded message: its own signature
		return "nested-nullable-embeds"
	}
	if hasNilEmbedded(reflect.ValueOf(s)) {
		return "nil-embedded-pointer"
	}
	return "case:" + t.Tags["class"] + "/" + t.Tags["card"] + "/" + t.Tags["vt"] + "@" + t.Tags["pos"]
}

// nestedNullableEmbeds tells whether some attribute of the message tree is reached through two or
// more nullable embedded parents in a row.
func nestedNullableEmbeds(m *spec.Msg) bool {
	for _, a := range m.Attrs {
		n := 0
		for _, st := range a.Embed {
			if st.Nullable {
				n++
			}
		}
		if n >= 2 || (a.Msg != nil && nestedNullableEmbeds(a.Msg)) {
			return true
		}
	}
	return false
}

func hasNilEmbedded(v reflect.Value) bool {
	switch v.Kind() {
	case reflect.Ptr, reflect.Interface:
		if v.IsNil() {
			return false
		}
		return hasNilEmbedded(v.Elem())
	case reflect.Struct:
		if v.Type() == timeType {
			return false
		}
		for _, f := range structFields(v.Type()) {
			fv := v.FieldByIndex(f.Index)
			if f.Anonymous && fv.Kind() == reflect.Ptr && fv.IsNil() {
				return true
			}
			if hasNilEmbedded(fv) {
				return true
			}
		}
	case reflect.Slice:
		for i := 0; i < v.Len(); i++ {
			if hasNilEmbedded(v.Index(i)) {
				return true
			}
		}
	case reflect.Map:
		for _, k := range v.MapKeys() {
			if hasNilEmbedded(v.MapIndex(k)) {
				return true
			}
		}
	}
	return false
}

func procC04(t *Target, tier string, r *Result) {
	schema := t.GetSchema()
	excl := exclFor(t.Spec)
	t.forEachS(tier, r, func(s interface{}, w SWitness) {
		w.Ops = []string{"SetS", "EmptyO", "To", "FreshS", "From"}
		want := NormS(s, excl)
		o := EmptyObject(schema)
		res := t.callTo(s, &o)
		r.Transitions++
		r.sample(w)
		if res.Panicked {
			r.outcome("to-panic")
			r.violate("panic-to", panicShape(t, s), "CopyTo panics: "+res.Panic, w)
			return
		}
		if e := res.errs(); len(e) > 0 {
			r.outcome("to-error")
			r.violate("error-diagnostic-to", "root", "CopyTo returns errors: "+diagText(e), w)
			return
		}
		fresh := t.New()
		res = t.callFrom(o, fresh)
		r.Transitions++
		if res.Panicked {
			r.outcome("from-panic")
			r.violate("panic-from", panicShape(t, t.New()), "CopyFrom of the CopyTo result panics: "+res.Panic, w)
			return
		}
		if e := res.errs(); len(e) > 0 {
			r.outcome("from-error")
			r.violate("error-diagnostic-from", "root", "CopyFrom of the CopyTo result returns errors: "+diagText(e), w)
			return
		}
		got := NormS(fresh, excl)
		if got == want {
			if want == NormS(t.New(), excl) {
				r.outcome("roundtrip-zero")
			} else {
				r.outcome("roundtrip-nonzero")
			}
			return
		}
		r.outcome("lossy")
		sh, detail := firstDiff(t.Spec, reflect.ValueOf(s).Elem(), reflect.ValueOf(fresh).Elem(), excl)
		r.violate("lossy", sh, "round trip loses information: "+detail+"\n   want "+want+"\n   got  "+got, w)
	})
}

// firstDiff finds the first spec attribute whose Go field differs in normal form.
func firstDiff(m *spec.Msg, a, b reflect.Value, excl Excl) (string, string) {
	return firstDiffIn(m, a, b, "", "")
}

func firstDiffIn(m *spec.Msg, a, b reflect.Value, parentChain, path string) (string, string) {
	// oneof holders first
	seenHolder := map[string]bool{}
	for _, at := range m.Attrs {
		fa, sa := goField(a, at)
		fb, sb := goField(b, at)
		ch := chain(parentChain, at)
		p := joinPath(path, at.Go)
		if at.Oneof != "" && !seenHolder[at.Oneof] {
			seenHolder[at.Oneof] = true
		}
		if sa != sb {
			if at.Oneof != "" {
				// only report at the branch that is active in exactly one of the two, if its payload is not normal-zero
				var f reflect.Value
				if sa == fsOK {
					f = fa
				} else if sb == fsOK {
					f = fb
				}
				if f.IsValid() && normZeroPayload(f) {
					continue
				}
			}
			if sa == fsNilEmbed || sb == fsNilEmbed {
				// nil embedded vs present: compare field with zero
				var f reflect.Value
				if sa == fsOK {
					f = fa
				} else if sb == fsOK {
					f = fb
				}
				if f.IsValid() && (sform{normal: true}).isNormZero(f, "") {
					continue
				}
			}
			return ch, fmt.Sprintf("field %s: reachability differs (%d vs %d)", p, sa, sb)
		}
		if sa != fsOK {
			continue
		}
		var x, y strings.Builder
		(sform{normal: true}).render(&x, fa, "", false)
		(sform{normal: true}).render(&y, fb, "", false)
		if x.String() != y.String() {
			if at.Kind == spec.Obj && at.Msg != nil && fa.Kind() == reflect.Ptr && !fa.IsNil() && !fb.IsNil() {
				return firstDiffIn(at.Msg, fa.Elem(), fb.Elem(), ch, p)
			}
			if at.Kind == spec.Obj && at.Msg != nil && fa.Kind() == reflect.Struct {
				return firstDiffIn(at.Msg, fa, fb, ch, p)
			}
			return ch, fmt.Sprintf("field %s: %s became %s", p, x.String(), y.String())
		}
	}
	return parentChain + ">?", "difference outside the described attributes at " + path
}

func normZeroPayload(f reflect.Value) bool {
	switch f.Kind() {
	case reflect.Ptr:
		return f.IsNil()
	case reflect.Slice:
		return f.Len() == 0
	}
	return (sform{normal: true}).isNormZero(f, "")
}

func procC20(t *Target, tier string, r *Result) {
	schema := t.GetSchema()
	t.forEachS(tier, r, func(s interface{}, w SWitness) {
		w.Ops = []string{"SetS", "EmptyO", "To"}
		o := EmptyObject(schema)
		res := t.callTo(s, &o)
		r.Transitions++
		r.sample(w)
		if res.Panicked {
			r.outcome("panic")
			r.violate("panic", panicShape(t, s), "CopyTo into an empty object panics: "+res.Panic, w)
			return
		}
		walkBoth(t.Spec, reflect.ValueOf(s).Elem(), o, "", "", func(v visit) {
			checkNullTable(r, w, v, reflect.ValueOf(s).Elem())
		})
	})
}

func checkNullTable(r *Result, w interface{}, v visit, root reflect.Value) {
	a := v.A
	if !v.Has || v.Val == nil {
		r.outcome("absent")
		return // C03 reports missing attributes
	}
	isNull := v.Val.IsNull()
	expect := func(wantNull bool, why string) {
		cls := "nonnull"
		if wantNull {
			cls = "null"
		}
		r.outcome(a.Kind + "/" + cls)
		if isNull != wantNull {
			kind := "present-rendered-null"
			if wantNull {
				kind = "absent-rendered-nonnull"
			}
			r.violate(kind, v.Chain, fmt.Sprintf("attribute %s: null=%v but %s", v.TFPath, isNull, why), w)
		}
	}
	if a.Placeholder {
		expect(true, "the placeholder of an empty message is always null")
		return
	}
	if a.Kind == spec.Custom {
		return
	}
	if v.FS == fsNilEmbed {
		if a.ByValueTemporal || (a.Kind == spec.Obj && !a.Ptr) {
			return
		}
		expect(true, "the nullable embedded parent is nil")
		return
	}
	if v.FS == fsInactive {
		// oneof branch not active: claimed null only when the whole oneof is unset
		h, _ := oneofHolder(rootOf(v, root), a)
		if h.IsValid() && h.IsNil() {
			expect(true, "the oneof is unset")
		}
		return
	}
	if a.ByValueTemporal {
		return
	}
	f := v.Field
	switch a.Kind {
	case spec.Prim:
		if a.Ptr {
			expect(f.IsNil(), fmt.Sprintf("the pointer is nil=%v", f.IsNil()))
		} else {
			z := isZeroScalar(f)
			expect(z, fmt.Sprintf("the field is zero=%v", z))
		}
	case spec.List, spec.Map, spec.ObjList, spec.ObjMap:
		expect(f.Len() == 0, fmt.Sprintf("the collection has %d entries", f.Len()))
	case spec.Obj:
		if a.Ptr {
			expect(f.IsNil(), fmt.Sprintf("the pointer is nil=%v", f.IsNil()))
		} else {
			expect(false, "a non-nullable message is never null")
		}
	}
}

// rootOf is a placeholder for holder resolution: walkBoth hands fields of the
// struct that declares them, so the holder is looked up from the struct the
// visit was produced for. It is carried in visit via Field's parent; since
// reflect cannot walk up, walkBoth records it.
func rootOf(v visit, root reflect.Value) reflect.Value {
	if v.parent.IsValid() {
		return v.parent
	}
	return root
}

// procC19: exact survival of scalar-like leaves over the full boundary sets.
func procC19(t *Target, tier string, r *Result) {
	schema := t.GetSchema()
	excl := exclFor(t.Spec)
	run := func(o sOpts, tag string) {
		t.forEachSOpt(tier, r, o, func(s interface{}, w SWitness) {
			w.Ops = []string{"SetS", "EmptyO", "To", "FreshS", "From"}
			want := NormS(s, excl)
			ob := EmptyObject(schema)
			res := t.callTo(s, &ob)
			r.Transitions++
			r.sample(w)
			if res.Panicked || len(res.errs()) > 0 {
				r.outcome(tag + "/to-failed")
				sh := "root"
				if res.Panicked {
					sh = panicShape(t, s)
				}
				r.violate("value-not-written", sh, "CopyTo fails for a value of the boundary set: "+res.Panic+diagText(res.errs()), w)
				return
			}
			fresh := t.New()
			res = t.callFrom(ob, fresh)
			r.Transitions++
			if res.Panicked || len(res.errs()) > 0 {
				r.outcome(tag + "/from-failed")
				sh := "root"
				if res.Panicked {
					sh = panicShape(t, s)
				}
				r.violate("value-not-read-back", sh, "CopyFrom of the written value fails: "+res.Panic+diagText(res.errs()), w)
				return
			}
			got := NormS(fresh, excl)
			if got == want {
				r.outcome(tag + "/exact")
				return
			}
			sh, detail := firstDiff(t.Spec, reflect.ValueOf(s).Elem(), reflect.ValueOf(fresh).Elem(), excl)
			if !scalarLike(sh) {
				// not a scalar conversion as such (C04 claims the structure), but a value of the boundary
				// alphabet did not survive: reported here as well, C04 explores a narrower value alphabet
				r.outcome(tag + "/structural-loss")
				r.violate("structure-lost-with-boundary-values", sh, "a value built from the boundary sets does not survive conversion: "+detail, w)
				return
			}
			r.outcome(tag + "/inexact")
			r.violate("inexact", sh, "scalar value does not survive conversion: "+detail, w)
		})
	}
	run(sOpts{Wide: true, Bases: []int{BaseZero, BaseMin, BaseFull}}, "boundary")
	seed := int64(Seed)
	run(sOpts{Wide: true, Bases: []int{BaseMin}, K: 1, RandN: 4, Seed: seed + 1}, "random")
}

// scalarLike tells whether the innermost attribute of a shape chain is a scalar-like leaf or a collection of them.
func scalarLike(chainStr string) bool {
	// the chain separator is ">", and collection descriptors end in ">" themselves (map<string>)
	last := strings.TrimSuffix(chainStr, ">")
	if i := strings.LastIndex(last, ">"); i >= 0 {
		last = last[i+1:]
	}
	return strings.HasPrefix(last, "prim:") || strings.HasPrefix(last, "list<") || strings.HasPrefix(last, "map<")
}

func init() {
	procs["C19"] = procC19
	procs["C03"] = procC03
	procs["C04"] = procC04
	procs["C20"] = procC20
}
