package explorer

import (
	"fmt"
	"hash/fnv"
	"math"
	"math/rand"
	"reflect"
	"sort"
	"strings"
	"time"
)

// Bases of the deviation-bounded value enumeration (DESIGN.md §3.6).
const (
	BaseZero = iota
	BaseMin
	BaseFull
	NumBases
)

var (
	timeType = reflect.TypeOf(time.Time{})
	durType  = reflect.TypeOf(time.Duration(0))
	// Instant is the distinctive time value: nanoseconds and a non-UTC zone.
	Instant = time.Date(2020, 5, 6, 7, 8, 9, 123456789, time.FixedZone("X", 3600))
	Epoch   = time.Unix(0, 0).UTC()
)

type oneofWrappers interface{ XXX_OneofWrappers() []interface{} }

// SBuilder builds a value of a generated struct type from a chooser.
type SBuilder struct {
	Ch   *Chooser
	Base int
	// Only, when non-nil, restricts deviations to positions whose dotted Go
	// path it accepts; other positions silently take the base default without
	// consuming a choice point.
	Only func(path string) bool
	// Points records the dotted path of every choice point, parallel to Ch.Choices.
	Points []string
	// Wide selects the full boundary sets of C19 for scalar-like leaves.
	Wide bool
	// Rand, when set, appends that many seeded random values to every scalar domain (supplementary sampling).
	Rand    *rand.Rand
	RandN   int
	randMem map[string][]uint64
	// stack holds the struct types being built: a message type that (through fields the
	// schema excludes) refers to itself is not expanded again, its pointer/collection stays nil
	stack []reflect.Type
}

func (b *SBuilder) onStack(t reflect.Type) bool {
	for t.Kind() == reflect.Ptr || t.Kind() == reflect.Slice || t.Kind() == reflect.Map {
		t = t.Elem()
	}
	if t.Kind() != reflect.Struct {
		return false
	}
	for _, s := range b.stack {
		if s == t {
			return true
		}
	}
	return false
}

// randBits returns the per-position random words (stable for one builder configuration).
func (b *SBuilder) randBits(path string) []uint64 {
	if b.Rand == nil || b.RandN == 0 {
		return nil
	}
	if b.randMem == nil {
		b.randMem = map[string][]uint64{}
	}
	if v, ok := b.randMem[path]; ok {
		return v
	}
	v := make([]uint64, b.RandN)
	for i := range v {
		v[i] = b.Rand.Uint64()
	}
	b.randMem[path] = v
	return v
}

func (b *SBuilder) pick(path string, n int, def int) int {
	if b.Only != nil && !b.Only(path) {
		return def % n
	}
	c := b.Ch.Choose(n)
	b.Points = append(b.Points, path)
	return (c + def) % n
}

func defIdx(base int, min, full int) int {
	switch base {
	case BaseMin:
		return min
	case BaseFull:
		return full
	}
	return 0
}

func nameHash(s string) uint32 {
	h := fnv.New32a()
	h.Write([]byte(s))
	return h.Sum32()
}

func lastSeg(path string) string {
	if i := strings.LastIndexAny(path, ".[/"); i >= 0 {
		return path[i+1:]
	}
	return path
}

// intDomain returns the boundary set of an integer kind; index 1 is the
// distinctive small value (position dependent).
func intDomain(k reflect.Kind, path string) ([]int64, []uint64) {
	d := int64(2 + nameHash(path)%90)
	switch k {
	case reflect.Int32:
		return []int64{0, d, -1, math.MinInt32, math.MaxInt32}, nil
	case reflect.Int64, reflect.Int:
		return []int64{0, d, -1, math.MinInt64, math.MaxInt64}, nil
	case reflect.Uint32:
		return nil, []uint64{0, uint64(d), math.MaxUint32, 1 << 31}
	case reflect.Uint64, reflect.Uint:
		return nil, []uint64{0, uint64(d), math.MaxUint64, 1 << 63, 1<<63 - 1}
	}
	panic("intDomain " + k.String())
}

var durDomain = []int64{0, int64(90 * time.Minute), -int64(time.Hour), 1, math.MaxInt64}

func isEnum(t reflect.Type) bool {
	if t.Kind() != reflect.Int32 {
		return false
	}
	_, ok := t.MethodByName("EnumDescriptor")
	return ok
}

func structFields(t reflect.Type) []reflect.StructField {
	var fs []reflect.StructField
	for i := 0; i < t.NumField(); i++ {
		f := t.Field(i)
		if strings.HasPrefix(f.Name, "XXX_") {
			continue
		}
		fs = append(fs, f)
	}
	sort.Slice(fs, func(i, j int) bool { return fs[i].Name < fs[j].Name })
	return fs
}

func wrappersFor(structPtr reflect.Value, iface reflect.Type) []reflect.Type {
	w, ok := structPtr.Interface().(oneofWrappers)
	if !ok {
		return nil
	}
	var cands []reflect.Type
	for _, x := range w.XXX_OneofWrappers() {
		if reflect.TypeOf(x).Implements(iface) {
			cands = append(cands, reflect.TypeOf(x))
		}
	}
	sort.Slice(cands, func(i, j int) bool { return cands[i].Elem().Name() < cands[j].Elem().Name() })
	return cands
}

var mapKeySets = [][]string{nil, {}, {"k1"}, {"k1", "k2"}, {"k2"}, {"k1", "k2", "k3"}}

// Build fills v (settable) with a value chosen by the chooser.
func (b *SBuilder) Build(v reflect.Value, path string) {
	t := v.Type()
	if (t.Kind() == reflect.Ptr || t.Kind() == reflect.Slice || t.Kind() == reflect.Map) && b.onStack(t) {
		v.Set(reflect.Zero(t))
		return
	}
	switch t.Kind() {
	case reflect.Ptr:
		if b.pick(path+"/ptr", 2, defIdx(b.Base, 1, 1)) == 0 {
			v.Set(reflect.Zero(t))
			return
		}
		n := reflect.New(t.Elem())
		b.Build(n.Elem(), path)
		v.Set(n)
	case reflect.Struct:
		if t == timeType {
			dom := []time.Time{{}, Instant, Epoch}
			if b.Wide {
				dom = append(dom,
					time.Date(1969, 12, 31, 23, 59, 59, 999999999, time.FixedZone("W", -7*3600)),
					time.Date(9999, 12, 31, 23, 59, 59, 1, time.UTC),
					time.Date(1, 1, 1, 0, 0, 0, 1, time.UTC),
					time.Unix(1600000000, 500).In(time.FixedZone("", 19800)),
				)
				for _, w := range b.randBits(path) {
					dom = append(dom, time.Unix(int64(w%4102444800), int64(w>>32)%1000000000).In(time.FixedZone("R", int(w%86400)-43200)))
				}
			}
			v.Set(reflect.ValueOf(dom[b.pick(path, len(dom), defIdx(b.Base, 1, 1))]))
			return
		}
		b.stack = append(b.stack, t)
		defer func() { b.stack = b.stack[:len(b.stack)-1] }()
		for _, f := range structFields(t) {
			fv := v.FieldByIndex(f.Index)
			if fv.Kind() == reflect.Interface {
				cands := wrappersFor(v.Addr(), fv.Type())
				c := b.pick(path+"."+f.Name+"/oneof", 1+len(cands), defIdx(b.Base, 1, 1))
				if c == 0 {
					fv.Set(reflect.Zero(fv.Type()))
					continue
				}
				w := reflect.New(cands[c-1].Elem())
				b.Build(w.Elem().Field(0), path+"."+f.Name+"."+cands[c-1].Elem().Field(0).Name)
				fv.Set(w)
				continue
			}
			b.Build(fv, path+"."+f.Name)
		}
	case reflect.Slice:
		if t.Elem().Kind() == reflect.Uint8 {
			dom := [][]byte{nil, []byte("by" + lastSeg(path)), {}, {0}, {0xff, 0xfe}}
			if b.Wide {
				dom = append(dom, []byte("\x00\x01\x7f\x80\xc0\xaf\xed\xa0\x80 \xf4\x90\x80\x80"), []byte("é→\u2028\ufeff"), bytes256())
				for _, w := range b.randBits(path) {
					rb := make([]byte, 1+w%17)
					for i := range rb {
						rb[i] = byte(w >> (uint(i%8) * 8))
						w = w*6364136223846793005 + 1442695040888963407
					}
					dom = append(dom, rb)
				}
			}
			c := b.pick(path, len(dom), defIdx(b.Base, 1, 1))
			if dom[c] == nil {
				v.Set(reflect.Zero(t))
			} else {
				v.Set(reflect.ValueOf(append([]byte{}, dom[c]...)).Convert(t))
			}
			return
		}
		c := b.pick(path+"/len", 5, defIdx(b.Base, 2, 3))
		if c == 0 {
			v.Set(reflect.Zero(t))
			return
		}
		n := c - 1
		s := reflect.MakeSlice(t, n, n)
		for i := 0; i < n; i++ {
			b.Build(s.Index(i), fmt.Sprintf("%s[%d]", path, i))
		}
		v.Set(s)
	case reflect.Map:
		c := b.pick(path+"/keys", len(mapKeySets), defIdx(b.Base, 2, 3))
		if mapKeySets[c] == nil {
			v.Set(reflect.Zero(t))
			return
		}
		m := reflect.MakeMap(t)
		for _, k := range mapKeySets[c] {
			e := reflect.New(t.Elem()).Elem()
			b.Build(e, path+"["+k+"]")
			m.SetMapIndex(reflect.ValueOf(k).Convert(t.Key()), e)
		}
		v.Set(m)
	case reflect.String:
		dom := []string{"", "x" + lastSeg(path), "a\x00é→z"}
		if b.Wide {
			dom = append(dom, "\xff\xfe invalid utf8", " leading and trailing ", "line\nbreak\ttab\"quote\\")
			for _, w := range b.randBits(path) {
				dom = append(dom, fmt.Sprintf("r%x", w))
			}
		}
		v.SetString(dom[b.pick(path, len(dom), defIdx(b.Base, 1, 1))])
	case reflect.Bool:
		v.SetBool(b.pick(path, 2, defIdx(b.Base, 1, 1)) == 1)
	case reflect.Int32, reflect.Int64, reflect.Int:
		if isEnum(t) {
			dom := []int64{0, 1, 2, 99, -1}
			if b.Wide {
				dom = append(dom, math.MinInt32, math.MaxInt32)
			}
			v.SetInt(dom[b.pick(path, len(dom), defIdx(b.Base, 1, 1))])
			return
		}
		if t == durType || t.Name() == "Duration" {
			dom := durDomain
			if b.Wide {
				dom = append(append([]int64{}, dom...), -1, math.MinInt64, int64(-36*time.Hour)-1, 1e9+1)
				for _, w := range b.randBits(path) {
					dom = append(dom, int64(w))
				}
			}
			v.SetInt(dom[b.pick(path, len(dom), defIdx(b.Base, 1, 1))])
			return
		}
		dom, _ := intDomain(t.Kind(), path)
		if b.Wide {
			dom = append(dom, 1, -2, 1<<31-2, -(1<<31)+1)
			if t.Kind() != reflect.Int32 {
				dom = append(dom, 1<<31, 1<<32, -(1 << 32), 1<<53+1, math.MinInt64+1, math.MaxInt64-1)
			}
			for _, w := range b.randBits(path) {
				if t.Kind() == reflect.Int32 {
					dom = append(dom, int64(int32(w)))
				} else {
					dom = append(dom, int64(w))
				}
			}
		}
		v.SetInt(dom[b.pick(path, len(dom), defIdx(b.Base, 1, 1))])
	case reflect.Uint32, reflect.Uint64, reflect.Uint:
		_, dom := intDomain(t.Kind(), path)
		if b.Wide {
			dom = append(dom, 1, 1<<31-1, 1<<31+1, math.MaxUint32-1)
			if t.Kind() != reflect.Uint32 {
				dom = append(dom, 1<<32, 1<<53+1, 1<<63+1, math.MaxUint64-1, math.MaxInt64-1)
			}
			for _, w := range b.randBits(path) {
				if t.Kind() == reflect.Uint32 {
					dom = append(dom, uint64(uint32(w)))
				} else {
					dom = append(dom, w)
				}
			}
		}
		v.SetUint(dom[b.pick(path, len(dom), defIdx(b.Base, 1, 1))])
	case reflect.Float32:
		dom := []float64{0, 1.5, math.Copysign(0, -1), math.SmallestNonzeroFloat32, math.MaxFloat32, -math.MaxFloat32, float64(float32(0.1))}
		if b.Wide {
			dom = append(dom, float64(float32(1.0/3)), float64(float32(16777216)), float64(float32(16777215)), float64(math.Float32frombits(0x00800000)), float64(math.Float32frombits(0x007fffff)), float64(float32(math.Pi)), -float64(math.SmallestNonzeroFloat32), float64(math.Float32frombits(0x7f7ffffe)))
			for _, w := range b.randBits(path) {
				f := math.Float32frombits(uint32(w))
				if f == f && !math.IsInf(float64(f), 0) {
					dom = append(dom, float64(f))
				}
			}
		}
		v.SetFloat(dom[b.pick(path, len(dom), defIdx(b.Base, 1, 1))])
	case reflect.Float64:
		dom := []float64{0, 1.5, math.Copysign(0, -1), math.SmallestNonzeroFloat64, math.MaxFloat64, -math.MaxFloat64, 0.1}
		if b.Wide {
			dom = append(dom, 1.0/3, 1<<53+2, 1<<53-1, math.Float64frombits(0x0010000000000000), math.Float64frombits(0x000fffffffffffff), math.Pi, -math.SmallestNonzeroFloat64, math.Float64frombits(0x7feffffffffffffe), float64(math.MaxFloat32)*2)
			for _, w := range b.randBits(path) {
				f := math.Float64frombits(w)
				if f == f && !math.IsInf(f, 0) {
					dom = append(dom, f)
				}
			}
		}
		v.SetFloat(dom[b.pick(path, len(dom), defIdx(b.Base, 1, 1))])
	default:
		panic("explorer: unsupported kind " + t.Kind().String() + " at " + path)
	}
}

// ---------------------------------------------------------------------------
// canonical and normal forms

// Excl decides whether a Go field (by dotted path of Go field names without
// indices, e.g. "Sub.X") is excluded from comparison.
type Excl func(goPath string) bool

type sform struct {
	normal bool
	// embedNorm: only two identifications of the normal form - nil ≡ pointer to an
	// all-zero message for nullable embedded pointers, and nil ≡ empty for slices,
	// maps and byte strings ("empty for slices and maps" in C05); everything else exact
	embedNorm bool
	excl      Excl
}

// CanonS renders a struct value exactly (nil and empty distinguished).
func CanonS(v interface{}) string {
	var sb strings.Builder
	sform{}.render(&sb, reflect.ValueOf(v), "", false)
	return sb.String()
}

// NormS renders the documented normal form N of C04.
func NormS(v interface{}, excl Excl) string {
	var sb strings.Builder
	sform{normal: true, excl: excl}.render(&sb, reflect.ValueOf(v), "", false)
	return sb.String()
}

func renderTime(sb *strings.Builder, t time.Time) {
	name, off := t.Zone()
	if t.IsZero() {
		fmt.Fprintf(sb, "T(zero,%s,%d)", name, off)
		return
	}
	fmt.Fprintf(sb, "T(%d,%s,%d)", t.UnixNano(), name, off)
}

func (f sform) isNormZero(v reflect.Value, goPath string) bool {
	var a, z strings.Builder
	f.render(&a, v, goPath, false)
	f.render(&z, reflect.Zero(v.Type()), goPath, false)
	return a.String() == z.String()
}

func (f sform) render(sb *strings.Builder, v reflect.Value, goPath string, embeddedPtr bool) {
	switch v.Kind() {
	case reflect.Ptr:
		if v.IsNil() {
			if (f.normal || f.embedNorm) && embeddedPtr {
				// nil nullable-embedded pointer ≡ pointer to an all-zero message
				sb.WriteString("&")
				f.render(sb, reflect.Zero(v.Type().Elem()), goPath, false)
				return
			}
			sb.WriteString("nil")
			return
		}
		if f.embedNorm && embeddedPtr && (sform{normal: true}).isNormZero(v.Elem(), goPath) {
			// pointer to an all-zero embedded message: rendered like nil
			sb.WriteString("&")
			f.render(sb, reflect.Zero(v.Type().Elem()), goPath, false)
			return
		}
		sb.WriteString("&")
		f.render(sb, v.Elem(), goPath, false)
	case reflect.Interface:
		if v.IsNil() {
			sb.WriteString("unset")
			return
		}
		w := v.Elem().Elem() // wrapper struct
		payload := w.Field(0)
		name := w.Type().Field(0).Name
		if f.excl != nil && f.excl(strings.TrimPrefix(goPath+"."+name, ".")) {
			// a branch the schema does not describe: compared like an unset oneof
			sb.WriteString("unset")
			return
		}
		if f.normal {
			zero := false
			switch payload.Kind() {
			case reflect.Ptr:
				zero = payload.IsNil()
			case reflect.Slice:
				zero = payload.Len() == 0
			default:
				zero = f.isNormZero(payload, goPath+"."+name)
			}
			if zero {
				sb.WriteString("unset")
				return
			}
		}
		sb.WriteString("branch:" + name + "=")
		f.render(sb, payload, goPath+"."+name, false)
	case reflect.Struct:
		if v.Type() == timeType {
			renderTime(sb, v.Interface().(time.Time))
			return
		}
		sb.WriteString("{")
		for _, fl := range structFields(v.Type()) {
			p := fl.Name
			if goPath != "" {
				p = goPath + "." + fl.Name
			}
			if fl.Anonymous {
				p = goPath // embedded children are addressed as children of the parent
			}
			if f.excl != nil && !fl.Anonymous && f.excl(p) {
				continue
			}
			sb.WriteString(fl.Name + ":")
			f.render(sb, v.FieldByIndex(fl.Index), p, fl.Anonymous && fl.Type.Kind() == reflect.Ptr)
			sb.WriteString(" ")
		}
		sb.WriteString("}")
	case reflect.Slice:
		if v.Type().Elem().Kind() == reflect.Uint8 {
			if v.IsNil() && !f.normal && !f.embedNorm {
				sb.WriteString("bnil")
				return
			}
			fmt.Fprintf(sb, "b%q", v.Bytes())
			return
		}
		if v.IsNil() && !f.normal && !f.embedNorm {
			sb.WriteString("[nil]")
			return
		}
		sb.WriteString("[")
		for i := 0; i < v.Len(); i++ {
			f.render(sb, v.Index(i), goPath, false)
			sb.WriteString(",")
		}
		sb.WriteString("]")
	case reflect.Map:
		if v.IsNil() && !f.normal && !f.embedNorm {
			sb.WriteString("map[nil]")
			return
		}
		keys := make([]string, 0, v.Len())
		for _, k := range v.MapKeys() {
			keys = append(keys, k.String())
		}
		sort.Strings(keys)
		sb.WriteString("map[")
		for _, k := range keys {
			fmt.Fprintf(sb, "%q=", k)
			f.render(sb, v.MapIndex(reflect.ValueOf(k).Convert(v.Type().Key())), goPath, false)
			sb.WriteString(",")
		}
		sb.WriteString("]")
	case reflect.Float32, reflect.Float64:
		x := v.Float()
		if f.normal && x == 0 {
			x = 0 // +0 ≡ −0
		}
		fmt.Fprintf(sb, "f%x", math.Float64bits(x))
	case reflect.String:
		fmt.Fprintf(sb, "%q", v.String())
	case reflect.Bool:
		fmt.Fprintf(sb, "%v", v.Bool())
	case reflect.Int, reflect.Int32, reflect.Int64:
		fmt.Fprintf(sb, "%d", v.Int())
	case reflect.Uint, reflect.Uint32, reflect.Uint64, reflect.Uint8:
		fmt.Fprintf(sb, "%du", v.Uint())
	default:
		panic("explorer: canon kind " + v.Kind().String())
	}
}

// DeepCopyS returns a deep copy of a pointer to a generated struct.
func DeepCopyS(v interface{}) interface{} {
	src := reflect.ValueOf(v)
	dst := reflect.New(src.Type().Elem())
	deepCopy(dst.Elem(), src.Elem())
	return dst.Interface()
}

func deepCopy(dst, src reflect.Value) {
	switch src.Kind() {
	case reflect.Ptr:
		if src.IsNil() {
			return
		}
		n := reflect.New(src.Type().Elem())
		deepCopy(n.Elem(), src.Elem())
		dst.Set(n)
	case reflect.Interface:
		if src.IsNil() {
			return
		}
		n := reflect.New(src.Elem().Type()).Elem()
		deepCopy(n, src.Elem())
		dst.Set(n)
	case reflect.Struct:
		if src.Type() == timeType {
			dst.Set(src)
			return
		}
		for i := 0; i < src.NumField(); i++ {
			if src.Type().Field(i).PkgPath != "" {
				continue
			}
			deepCopy(dst.Field(i), src.Field(i))
		}
	case reflect.Slice:
		if src.IsNil() {
			return
		}
		n := reflect.MakeSlice(src.Type(), src.Len(), src.Len())
		for i := 0; i < src.Len(); i++ {
			deepCopy(n.Index(i), src.Index(i))
		}
		dst.Set(n)
	case reflect.Map:
		if src.IsNil() {
			return
		}
		n := reflect.MakeMap(src.Type())
		for _, k := range src.MapKeys() {
			e := reflect.New(src.Type().Elem()).Elem()
			deepCopy(e, src.MapIndex(k))
			n.SetMapIndex(k, e)
		}
		dst.Set(n)
	default:
		dst.Set(src)
	}
}

func bytes256() []byte {
	b := make([]byte, 256)
	for i := range b {
		b[i] = byte(i)
	}
	return b
}
