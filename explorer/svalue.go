package explorer

import (
	"fmt"
	"hash/fnv"
	"math"
	"reflect"
	"sort"
	"strings"
	"time"
)

// Bases of the deviation-bounded value enumeration (DESIGN.md §3.6).
const (
	BaseZero = iota
	BaseMin
	BaseFull
	NumBases
)

var (
	timeType = reflect.TypeOf(time.Time{})
	durType  = reflect.TypeOf(time.Duration(0))
	// Instant is the distinctive time value: nanoseconds and a non-UTC zone.
	Instant = time.Date(2020, 5, 6, 7, 8, 9, 123456789, time.FixedZone("X", 3600))
	Epoch   = time.Unix(0, 0).UTC()
)

type oneofWrappers interface{ XXX_OneofWrappers() []interface{} }

// SBuilder builds a value of a generated struct type from a chooser.
type SBuilder struct {
	Ch   *Chooser
	Base int
	// Only, when non-nil, restricts deviations to positions whose dotted Go
	// path it accepts; other positions silently take the base default without
	// consuming a choice point.
	Only func(path string) bool
	// Points records the dotted path of every choice point, parallel to Ch.Choices.
	Points []string
}

func (b *SBuilder) pick(path string, n int, def int) int {
	if b.Only != nil && !b.Only(path) {
		return def % n
	}
	c := b.Ch.Choose(n)
	b.Points = append(b.Points, path)
	return (c + def) % n
}

func defIdx(base int, min, full int) int {
	switch base {
	case BaseMin:
		return min
	case BaseFull:
		return full
	}
	return 0
}

func nameHash(s string) uint32 {
	h := fnv.New32a()
	h.Write([]byte(s))
	return h.Sum32()
}

func lastSeg(path string) string {
	if i := strings.LastIndexAny(path, ".[/"); i >= 0 {
		return path[i+1:]
	}
	return path
}

// intDomain returns the boundary set of an integer kind; index 1 is the
// distinctive small value (position dependent).
func intDomain(k reflect.Kind, path string) ([]int64, []uint64) {
	d := int64(2 + nameHash(path)%90)
	switch k {
	case reflect.Int32:
		return []int64{0, d, -1, math.MinInt32, math.MaxInt32}, nil
	case reflect.Int64, reflect.Int:
		return []int64{0, d, -1, math.MinInt64, math.MaxInt64}, nil
	case reflect.Uint32:
		return nil, []uint64{0, uint64(d), math.MaxUint32, 1 << 31}
	case reflect.Uint64, reflect.Uint:
		return nil, []uint64{0, uint64(d), math.MaxUint64, 1 << 63, 1<<63 - 1}
	}
	panic("intDomain " + k.String())
}

var durDomain = []int64{0, int64(90 * time.Minute), -int64(time.Hour), 1, math.MaxInt64}

func isEnum(t reflect.Type) bool {
	if t.Kind() != reflect.Int32 {
		return false
	}
	_, ok := t.MethodByName("EnumDescriptor")
	return ok
}

func structFields(t reflect.Type) []reflect.StructField {
	var fs []reflect.StructField
	for i := 0; i < t.NumField(); i++ {
		f := t.Field(i)
		if strings.HasPrefix(f.Name, "XXX_") {
			continue
		}
		fs = append(fs, f)
	}
	sort.Slice(fs, func(i, j int) bool { return fs[i].Name < fs[j].Name })
	return fs
}

func wrappersFor(structPtr reflect.Value, iface reflect.Type) []reflect.Type {
	w, ok := structPtr.Interface().(oneofWrappers)
	if !ok {
		return nil
	}
	var cands []reflect.Type
	for _, x := range w.XXX_OneofWrappers() {
		if reflect.TypeOf(x).Implements(iface) {
			cands = append(cands, reflect.TypeOf(x))
		}
	}
	sort.Slice(cands, func(i, j int) bool { return cands[i].Elem().Name() < cands[j].Elem().Name() })
	return cands
}

var mapKeySets = [][]string{nil, {}, {"k1"}, {"k1", "k2"}, {"k2"}, {"k1", "k2", "k3"}}

// Build fills v (settable) with a value chosen by the chooser.
func (b *SBuilder) Build(v reflect.Value, path string) {
	t := v.Type()
	switch t.Kind() {
	case reflect.Ptr:
		if b.pick(path+"/ptr", 2, defIdx(b.Base, 1, 1)) == 0 {
			v.Set(reflect.Zero(t))
			return
		}
		n := reflect.New(t.Elem())
		b.Build(n.Elem(), path)
		v.Set(n)
	case reflect.Struct:
		if t == timeType {
			dom := []time.Time{{}, Instant, Epoch}
			v.Set(reflect.ValueOf(dom[b.pick(path, len(dom), defIdx(b.Base, 1, 1))]))
			return
		}
		for _, f := range structFields(t) {
			fv := v.FieldByIndex(f.Index)
			if fv.Kind() == reflect.Interface {
				cands := wrappersFor(v.Addr(), fv.Type())
				c := b.pick(path+"."+f.Name+"/oneof", 1+len(cands), defIdx(b.Base, 1, 1))
				if c == 0 {
					fv.Set(reflect.Zero(fv.Type()))
					continue
				}
				w := reflect.New(cands[c-1].Elem())
				b.Build(w.Elem().Field(0), path+"."+f.Name+"."+cands[c-1].Elem().Field(0).Name)
				fv.Set(w)
				continue
			}
			b.Build(fv, path+"."+f.Name)
		}
	case reflect.Slice:
		if t.Elem().Kind() == reflect.Uint8 {
			dom := [][]byte{nil, []byte("by" + lastSeg(path)), {}, {0}, {0xff, 0xfe}}
			c := b.pick(path, len(dom), defIdx(b.Base, 1, 1))
			if dom[c] == nil {
				v.Set(reflect.Zero(t))
			} else {
				v.Set(reflect.ValueOf(append([]byte{}, dom[c]...)).Convert(t))
			}
			return
		}
		c := b.pick(path+"/len", 5, defIdx(b.Base, 2, 3))
		if c == 0 {
			v.Set(reflect.Zero(t))
			return
		}
		n := c - 1
		s := reflect.MakeSlice(t, n, n)
		for i := 0; i < n; i++ {
			b.Build(s.Index(i), fmt.Sprintf("%s[%d]", path, i))
		}
		v.Set(s)
	case reflect.Map:
		c := b.pick(path+"/keys", len(mapKeySets), defIdx(b.Base, 2, 3))
		if mapKeySets[c] == nil {
			v.Set(reflect.Zero(t))
			return
		}
		m := reflect.MakeMap(t)
		for _, k := range mapKeySets[c] {
			e := reflect.New(t.Elem()).Elem()
			b.Build(e, path+"["+k+"]")
			m.SetMapIndex(reflect.ValueOf(k).Convert(t.Key()), e)
		}
		v.Set(m)
	case reflect.String:
		dom := []string{"", "x" + lastSeg(path), "a\x00é→z"}
		v.SetString(dom[b.pick(path, len(dom), defIdx(b.Base, 1, 1))])
	case reflect.Bool:
		v.SetBool(b.pick(path, 2, defIdx(b.Base, 1, 1)) == 1)
	case reflect.Int32, reflect.Int64, reflect.Int:
		if isEnum(t) {
			dom := []int64{0, 1, 2, 99, -1}
			v.SetInt(dom[b.pick(path, len(dom), defIdx(b.Base, 1, 1))])
			return
		}
		if t == durType || t.Name() == "Duration" {
			v.SetInt(durDomain[b.pick(path, len(durDomain), defIdx(b.Base, 1, 1))])
			return
		}
		dom, _ := intDomain(t.Kind(), path)
		v.SetInt(dom[b.pick(path, len(dom), defIdx(b.Base, 1, 1))])
	case reflect.Uint32, reflect.Uint64, reflect.Uint:
		_, dom := intDomain(t.Kind(), path)
		v.SetUint(dom[b.pick(path, len(dom), defIdx(b.Base, 1, 1))])
	case reflect.Float32:
		dom := []float64{0, 1.5, math.Copysign(0, -1), math.SmallestNonzeroFloat32, math.MaxFloat32, -math.MaxFloat32, float64(float32(0.1))}
		v.SetFloat(dom[b.pick(path, len(dom), defIdx(b.Base, 1, 1))])
	case reflect.Float64:
		dom := []float64{0, 1.5, math.Copysign(0, -1), math.SmallestNonzeroFloat64, math.MaxFloat64, -math.MaxFloat64, 0.1}
		v.SetFloat(dom[b.pick(path, len(dom), defIdx(b.Base, 1, 1))])
	default:
		panic("explorer: unsupported kind " + t.Kind().String() + " at " + path)
	}
}

// ---------------------------------------------------------------------------
// canonical and normal forms

// Excl decides whether a Go field (by dotted path of Go field names without
// indices, e.g. "Sub.X") is excluded from comparison.
type Excl func(goPath string) bool

type sform struct {
	normal bool
	excl   Excl
}

// CanonS renders a struct value exactly (nil and empty distinguished).
func CanonS(v interface{}) string {
	var sb strings.Builder
	sform{}.render(&sb, reflect.ValueOf(v), "", false)
	return sb.String()
}

// NormS renders the documented normal form N of C04.
func NormS(v interface{}, excl Excl) string {
	var sb strings.Builder
	sform{normal: true, excl: excl}.render(&sb, reflect.ValueOf(v), "", false)
	return sb.String()
}

func renderTime(sb *strings.Builder, t time.Time) {
	name, off := t.Zone()
	if t.IsZero() {
		fmt.Fprintf(sb, "T(zero,%s,%d)", name, off)
		return
	}
	fmt.Fprintf(sb, "T(%d,%s,%d)", t.UnixNano(), name, off)
}

func (f sform) isNormZero(v reflect.Value, goPath string) bool {
	var a, z strings.Builder
	f.render(&a, v, goPath, false)
	f.render(&z, reflect.Zero(v.Type()), goPath, false)
	return a.String() == z.String()
}

func (f sform) render(sb *strings.Builder, v reflect.Value, goPath string, embeddedPtr bool) {
	switch v.Kind() {
	case reflect.Ptr:
		if v.IsNil() {
			if f.normal && embeddedPtr {
				// nil nullable-embedded pointer ≡ pointer to an all-zero message
				sb.WriteString("&")
				f.render(sb, reflect.Zero(v.Type().Elem()), goPath, false)
				return
			}
			sb.WriteString("nil")
			return
		}
		sb.WriteString("&")
		f.render(sb, v.Elem(), goPath, false)
	case reflect.Interface:
		if v.IsNil() {
			sb.WriteString("unset")
			return
		}
		w := v.Elem().Elem() // wrapper struct
		payload := w.Field(0)
		name := w.Type().Field(0).Name
		if f.normal {
			zero := false
			switch payload.Kind() {
			case reflect.Ptr:
				zero = payload.IsNil()
			case reflect.Slice:
				zero = payload.Len() == 0
			default:
				zero = f.isNormZero(payload, goPath+"."+name)
			}
			if zero {
				sb.WriteString("unset")
				return
			}
		}
		sb.WriteString("branch:" + name + "=")
		f.render(sb, payload, goPath+"."+name, false)
	case reflect.Struct:
		if v.Type() == timeType {
			renderTime(sb, v.Interface().(time.Time))
			return
		}
		sb.WriteString("{")
		for _, fl := range structFields(v.Type()) {
			p := fl.Name
			if goPath != "" {
				p = goPath + "." + fl.Name
			}
			if fl.Anonymous {
				p = goPath // embedded children are addressed as children of the parent
			}
			if f.excl != nil && !fl.Anonymous && f.excl(p) {
				continue
			}
			sb.WriteString(fl.Name + ":")
			f.render(sb, v.FieldByIndex(fl.Index), p, fl.Anonymous && fl.Type.Kind() == reflect.Ptr)
			sb.WriteString(" ")
		}
		sb.WriteString("}")
	case reflect.Slice:
		if v.Type().Elem().Kind() == reflect.Uint8 {
			if v.IsNil() && !f.normal {
				sb.WriteString("bnil")
				return
			}
			fmt.Fprintf(sb, "b%q", v.Bytes())
			return
		}
		if v.IsNil() && !f.normal {
			sb.WriteString("[nil]")
			return
		}
		sb.WriteString("[")
		for i := 0; i < v.Len(); i++ {
			f.render(sb, v.Index(i), goPath, false)
			sb.WriteString(",")
		}
		sb.WriteString("]")
	case reflect.Map:
		if v.IsNil() && !f.normal {
			sb.WriteString("map[nil]")
			return
		}
		keys := make([]string, 0, v.Len())
		for _, k := range v.MapKeys() {
			keys = append(keys, k.String())
		}
		sort.Strings(keys)
		sb.WriteString("map[")
		for _, k := range keys {
			fmt.Fprintf(sb, "%q=", k)
			f.render(sb, v.MapIndex(reflect.ValueOf(k).Convert(v.Type().Key())), goPath, false)
			sb.WriteString(",")
		}
		sb.WriteString("]")
	case reflect.Float32, reflect.Float64:
		x := v.Float()
		if f.normal && x == 0 {
			x = 0 // +0 ≡ −0
		}
		fmt.Fprintf(sb, "f%x", math.Float64bits(x))
	case reflect.String:
		fmt.Fprintf(sb, "%q", v.String())
	case reflect.Bool:
		fmt.Fprintf(sb, "%v", v.Bool())
	case reflect.Int, reflect.Int32, reflect.Int64:
		fmt.Fprintf(sb, "%d", v.Int())
	case reflect.Uint, reflect.Uint32, reflect.Uint64, reflect.Uint8:
		fmt.Fprintf(sb, "%du", v.Uint())
	default:
		panic("explorer: canon kind " + v.Kind().String())
	}
}

// DeepCopyS returns a deep copy of a pointer to a generated struct.
func DeepCopyS(v interface{}) interface{} {
	src := reflect.ValueOf(v)
	dst := reflect.New(src.Type().Elem())
	deepCopy(dst.Elem(), src.Elem())
	return dst.Interface()
}

func deepCopy(dst, src reflect.Value) {
	switch src.Kind() {
	case reflect.Ptr:
		if src.IsNil() {
			return
		}
		n := reflect.New(src.Type().Elem())
		deepCopy(n.Elem(), src.Elem())
		dst.Set(n)
	case reflect.Interface:
		if src.IsNil() {
			return
		}
		n := reflect.New(src.Elem().Type()).Elem()
		deepCopy(n, src.Elem())
		dst.Set(n)
	case reflect.Struct:
		if src.Type() == timeType {
			dst.Set(src)
			return
		}
		for i := 0; i < src.NumField(); i++ {
			if src.Type().Field(i).PkgPath != "" {
				continue
			}
			deepCopy(dst.Field(i), src.Field(i))
		}
	case reflect.Slice:
		if src.IsNil() {
			return
		}
		n := reflect.MakeSlice(src.Type(), src.Len(), src.Len())
		for i := 0; i < src.Len(); i++ {
			deepCopy(n.Index(i), src.Index(i))
		}
		dst.Set(n)
	case reflect.Map:
		if src.IsNil() {
			return
		}
		n := reflect.MakeMap(src.Type())
		for _, k := range src.MapKeys() {
			e := reflect.New(src.Type().Elem()).Elem()
			deepCopy(e, src.MapIndex(k))
			n.SetMapIndex(k, e)
		}
		dst.Set(n)
	default:
		dst.Set(src)
	}
}
