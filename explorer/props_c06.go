package explorer

import (
	"fmt"
	"reflect"
	"sort"
	"strings"

	"github.com/hashicorp/terraform-plugin-framework/attr"
	"github.com/hashicorp/terraform-plugin-framework/diag"
	"github.com/hashicorp/terraform-plugin-framework/types"

	"verif/spec"
)

// predicted diagnostic
type pdiag struct{ Path, Kind string }

type corruption struct {
	ch      *Chooser
	points  []string
	applied []string
}

func (c *corruption) pick(path string, n int) int {
	c.points = append(c.points, path)
	return c.ch.Choose(n)
}

func mistype(v attr.Value) attr.Value {
	if _, ok := v.(types.String); ok {
		return types.Bool{Value: true}
	}
	return types.String{Value: "wrong-type"}
}

// corruptObject returns a corrupted deep copy of a known, non-null object: per
// attribute {intact, deleted, mistyped, nil interface}; per nested container
// additionally {nil container}; per element {intact, mistyped, nil interface}.
func (c *corruption) corruptObject(o types.Object, path string) types.Object {
	n := o
	n.Attrs = map[string]attr.Value{}
	keys := make([]string, 0, len(o.Attrs))
	for k := range o.Attrs {
		keys = append(keys, k)
	}
	sort.Strings(keys)
	for _, k := range keys {
		p := joinPath(path, k)
		switch c.pick(p, 4) {
		case 1:
			c.applied = append(c.applied, "delete "+p)
			continue
		case 2:
			c.applied = append(c.applied, "mistype "+p)
			n.Attrs[k] = mistype(o.Attrs[k])
			continue
		case 3:
			c.applied = append(c.applied, "nil-interface "+p)
			n.Attrs[k] = nil
			continue
		}
		n.Attrs[k] = c.corruptValue(o.Attrs[k], p)
	}
	return n
}

func (c *corruption) corruptElem(e attr.Value, p string) attr.Value {
	switch c.pick(p, 3) {
	case 1:
		c.applied = append(c.applied, "mistype "+p)
		return mistype(e)
	case 2:
		c.applied = append(c.applied, "nil-interface "+p)
		return nil
	}
	return c.corruptValue(e, p)
}

func (c *corruption) corruptValue(v attr.Value, p string) attr.Value {
	switch x := v.(type) {
	case types.Object:
		if x.Null || x.Unknown {
			return x
		}
		if c.pick(p+"/attrs", 2) == 1 {
			c.applied = append(c.applied, "nil-Attrs "+p)
			x.Attrs = nil
			return x
		}
		return c.corruptObject(x, p)
	case types.List:
		if x.Null || x.Unknown {
			return x
		}
		if c.pick(p+"/elems", 2) == 1 {
			c.applied = append(c.applied, "nil-Elems "+p)
			x.Elems = nil
			return x
		}
		es := make([]attr.Value, len(x.Elems))
		for i, e := range x.Elems {
			es[i] = c.corruptElem(e, fmt.Sprintf("%s[%d]", p, i))
		}
		x.Elems = es
		return x
	case types.Map:
		if x.Null || x.Unknown {
			return x
		}
		if c.pick(p+"/elems", 2) == 1 {
			c.applied = append(c.applied, "nil-Elems "+p)
			x.Elems = nil
			return x
		}
		es := map[string]attr.Value{}
		for _, k := range keysOf(x.Elems) {
			es[k] = c.corruptElem(x.Elems[k], p+"["+k+"]")
		}
		x.Elems = es
		return x
	}
	return v
}

// wellTyped tells whether v has the Go type the schema gives attribute type t.
func wellTyped(v attr.Value, t attr.Type) bool {
	if v == nil {
		return false
	}
	z, err := zeroOf(t)
	if err != nil {
		return true
	}
	return reflect.TypeOf(v) == reflect.TypeOf(z)
}

// predictFrom computes the diagnostics a correct CopyFrom reports for object o
// (possibly corrupted) of message m, and the Go-path prefixes below which the
// result may differ from the uncorrupted run.
func predictFrom(m *spec.Msg, o types.Object, ot types.ObjectType, goPrefix string, out map[pdiag]bool, touched map[string]bool) {
	for _, a := range m.Attrs {
		if a.Placeholder {
			// the placeholder of a message without attributes exists in the schema only: nothing is read
			continue
		}
		gp := goPrefix
		switch {
		case len(a.Embed) > 0:
			gp += "." + a.Embed[0].Go
		case a.Oneof != "":
			gp += "." + a.Oneof
		default:
			gp += "." + a.Go
		}
		v, ok := o.Attrs[a.Name]
		if !ok {
			out[pdiag{a.Path, "missing"}] = true
			touched[gp] = true
			continue
		}
		if a.Kind == spec.Custom {
			if !wellTyped(v, ot.AttrTypes[a.Name]) {
				touched[gp] = true
			}
			continue
		}
		at := ot.AttrTypes[a.Name]
		if !wellTyped(v, at) {
			out[pdiag{a.Path, "conversion"}] = true
			touched[gp] = true
			continue
		}
		if nullOrUnknown(v) {
			continue
		}
		switch x := v.(type) {
		case types.Object:
			if a.Msg == nil || a.Msg.Empty {
				continue
			}
			sot, _ := at.(types.ObjectType)
			sub := goPrefix
			for _, st := range a.Embed {
				sub += "." + st.Go
			}
			if a.Oneof != "" {
				sub += "." + a.Oneof
			}
			sub += "." + a.Go
			predictFrom(a.Msg, x, sot, sub, out, touched)
		case types.List:
			lt, _ := at.(types.ListType)
			if x.Elems == nil {
				touched[gp] = true
			}
			for _, e := range x.Elems {
				predictElem(a, e, lt.ElemType, gp, out, touched)
			}
		case types.Map:
			mt, _ := at.(types.MapType)
			if x.Elems == nil {
				touched[gp] = true
			}
			for _, e := range x.Elems {
				predictElem(a, e, mt.ElemType, gp, out, touched)
			}
		}
	}
}

func predictElem(a *spec.Attr, e attr.Value, et attr.Type, gp string, out map[pdiag]bool, touched map[string]bool) {
	if !wellTyped(e, et) {
		out[pdiag{a.Path, "element-conversion"}] = true
		touched[gp] = true
		return
	}
	if nullOrUnknown(e) {
		return
	}
	if eo, ok := e.(types.Object); ok && a.Msg != nil && !a.Msg.Empty {
		sot, _ := et.(types.ObjectType)
		// anything below an element is attributed to the whole collection
		sub := map[string]bool{}
		predictFrom(a.Msg, eo, sot, gp+"[*]", out, sub)
		if len(sub) > 0 {
			touched[gp] = true
		}
	}
}

func errDiags(ds diag.Diagnostics) []diag.Diagnostic {
	var out []diag.Diagnostic
	for _, d := range ds {
		if d.Severity() == diag.SeverityError {
			out = append(out, d)
		}
	}
	return out
}

func namesPath(detail, path string) bool {
	return strings.Contains(detail, " "+path+" ") || strings.HasPrefix(detail, path+":") || strings.HasPrefix(detail, path+" ")
}

// judgeDiags compares reported error diagnostics with the predicted set, wording-free.
func judgeDiags(r *Result, w interface{}, dir string, got []diag.Diagnostic, want map[pdiag]bool) bool {
	ok := true
	paths := map[string]bool{}
	for p := range want {
		paths[p.Path] = true
	}
	if len(got) != len(want) {
		ok = false
		r.violate(dir+"/diagnostic-count", "root", fmt.Sprintf("%d error diagnostics reported, %d predicted %v; reported: %s", len(got), len(want), sortedP(want), diagText(got)), w)
	}
	named := map[string]bool{}
	for _, d := range got {
		hit := false
		for p := range paths {
			if namesPath(d.Detail(), p) {
				named[p] = true
				hit = true
			}
		}
		if !hit && len(got) == len(want) {
			ok = false
			r.violate(dir+"/diagnostic-names-no-predicted-path", "root", fmt.Sprintf("diagnostic %q names none of the predicted paths %v", d.Detail(), sortedP(want)), w)
		}
	}
	if len(got) == len(want) {
		for p := range paths {
			if !named[p] {
				ok = false
				r.violate(dir+"/path-not-reported", "root", fmt.Sprintf("no diagnostic names %s; reported: %s", p, diagText(got)), w)
			}
		}
	}
	return ok
}

func sortedP(m map[pdiag]bool) []string {
	var out []string
	for p := range m {
		out = append(out, p.Kind+":"+p.Path)
	}
	sort.Strings(out)
	return out
}

// typeCorruption removes AttrTypes entries of an object type tree.
func (c *corruption) corruptType(t attr.Type, path string) attr.Type {
	switch x := t.(type) {
	case types.ObjectType:
		n := types.ObjectType{AttrTypes: map[string]attr.Type{}}
		for _, k := range sortedTypeKeys(x.AttrTypes) {
			p := joinPath(path, k)
			if c.pick(p, 2) == 1 {
				c.applied = append(c.applied, "remove-type "+p)
				continue
			}
			n.AttrTypes[k] = c.corruptType(x.AttrTypes[k], p)
		}
		return n
	case types.ListType:
		return types.ListType{ElemType: c.corruptType(x.ElemType, path+"[]")}
	case types.MapType:
		return types.MapType{ElemType: c.corruptType(x.ElemType, path+"[]")}
	}
	return t
}

// predictTo computes the write-missing diagnostics for source struct sv and a corrupted type tree.
func predictTo(m *spec.Msg, sv reflect.Value, ot types.ObjectType, tfPath string, out map[pdiag]bool, touched map[string]bool) {
	for _, a := range m.Attrs {
		p := joinPath(tfPath, a.Name)
		at, ok := ot.AttrTypes[a.Name]
		if !ok {
			out[pdiag{a.Path, "write-missing"}] = true
			touched[p] = true
			continue
		}
		if a.Kind == spec.Custom || a.Msg == nil {
			continue
		}
		f, fs := goFieldZeroEmbed(sv, a)
		if fs != fsOK {
			continue
		}
		switch a.Kind {
		case spec.Obj:
			if f.Kind() == reflect.Ptr {
				if f.IsNil() {
					continue
				}
				f = f.Elem()
			}
			if sot, ok := at.(types.ObjectType); ok {
				predictTo(a.Msg, f, sot, p, out, touched)
			}
		case spec.ObjList:
			lt, ok := at.(types.ListType)
			if !ok {
				continue
			}
			sot, ok := lt.ElemType.(types.ObjectType)
			if !ok {
				continue
			}
			for i := 0; i < f.Len(); i++ {
				e := f.Index(i)
				if e.Kind() == reflect.Ptr {
					if e.IsNil() {
						continue
					}
					e = e.Elem()
				}
				predictTo(a.Msg, e, sot, fmt.Sprintf("%s[%d]", p, i), out, touched)
			}
		case spec.ObjMap:
			mt, ok := at.(types.MapType)
			if !ok {
				continue
			}
			sot, ok := mt.ElemType.(types.ObjectType)
			if !ok {
				continue
			}
			for _, k := range f.MapKeys() {
				e := f.MapIndex(k)
				if e.Kind() == reflect.Ptr {
					if e.IsNil() {
						continue
					}
					e = e.Elem()
				} else {
					c := reflect.New(e.Type()).Elem()
					c.Set(e)
					e = c
				}
				predictTo(a.Msg, e, sot, p+"["+k.String()+"]", out, touched)
			}
		}
	}
}

func underAny(key string, prefixes map[string]bool) bool {
	key = strings.TrimSuffix(key, "#")
	for p := range prefixes {
		if key == p || (strings.HasPrefix(key, p) && (key[len(p)] == '.' || key[len(p)] == '[')) {
			return true
		}
	}
	return false
}

func procC06(t *Target, tier string, r *Result) {
	schema := t.GetSchema()
	st := schema.AttributeType().(types.ObjectType)
	k := 2
	budget := 20000
	if tier == "thorough" {
		k, budget = 3, 200000
	}
	// ---- From direction
	full, _, err := t.buildO(&Chooser{}, OBaseKnownFull, oOpts{Admissible: true})
	if err != nil {
		r.HarnessErr = err.Error()
		return
	}
	clean := t.New()
	if res := t.callFrom(CopyObj(full), clean); res.Panicked || len(res.errs()) > 0 {
		r.outcome("from/uncorrupted-run-failed")
	} else {
		cleanFlat := map[string]string{}
		flattenS(reflect.ValueOf(clean).Elem(), "", cleanFlat)
		seen := map[string]bool{}
		run := func(ch *Chooser) {
			c := &corruption{ch: ch}
			co := c.corruptObject(CopyObj(full), "")
			key := strings.Join(c.applied, ";")
			r.Evals++
			if seen[key] || !mine(key) {
				return
			}
			seen[key] = true
			w := OWitness{Kind: "corruption", Choices: append([]int{}, ch.Choices...), Object: CanonOValues(co), Extra: key, Ops: []string{"SetO(full)", "Corrupt", "FreshS", "From"}}
			r.sample(w)
			want := map[pdiag]bool{}
			touched := map[string]bool{}
			predictFrom(t.Spec, co, st, "", want, touched)
			tgt := t.New()
			res := t.callFrom(co, tgt)
			r.Transitions++
			if res.Panicked {
				r.outcome("from/panic")
				r.violate("from/panic", panicShape(t, t.New()), fmt.Sprintf("CopyFrom panics on a malformed object (%s): %s", key, res.Panic), w)
				return
			}
			if len(want) == 0 {
				r.outcome("from/no-diagnostic-predicted")
			} else {
				r.outcome("from/diagnostics-predicted")
			}
			judgeDiags(r, w, "from", errDiags(res.Diags), want)
			got := map[string]string{}
			flattenS(reflect.ValueOf(tgt).Elem(), "", got)
			for _, dk := range diffKeys(cleanFlat, got) {
				if !underAny(dk, touched) {
					r.violate("from/well-formed-attribute-not-copied", "root", fmt.Sprintf("field %s differs from the uncorrupted run although its attribute chain is intact (corruptions: %s)", dk, key), w)
					break
				}
			}
		}
		probe := &Chooser{}
		(&corruption{ch: probe}).corruptObject(CopyObj(full), "")
		alts := 0
		for _, a := range probe.Arity {
			alts += a - 1
		}
		kf := k
		for kf > 1 && estimate(alts, kf) > budget {
			kf--
		}
		_, capped := Explore(kf, budget, run)
		if capped {
			r.Capped = true
		}
		r.Bound = fmt.Sprintf("From: corruption sets of size <= %d (+ the two extremes); ", kf)
		// extremes: everything deleted / everything mistyped at the top level
		for _, mode := range []int{1, 2} {
			var prefix []int
			probe := &Chooser{}
			(&corruption{ch: probe}).corruptObject(CopyObj(full), "")
			_ = probe
			n := len(full.Attrs)
			for i := 0; i < n; i++ {
				prefix = append(prefix, mode)
			}
			func() {
				defer func() { recover() }()
				run(Replay(prefix))
			}()
		}
		r.States += len(seen)
		r.Nontrivial += len(seen)
	}
	// ---- To direction: every set of removed attribute types is crossed with three sources (all
	// pointers set, all pointers nil including nullable embedded parents, minimal non-zero)
	bases := []struct {
		name string
		b    int
	}{{"full", BaseFull}, {"zero", BaseZero}, {"min", BaseMin}}
	var bounds []string
	for bi, base := range bases {
		src, _ := t.buildSOpt(&Chooser{}, base.b, sOpts{})
		cleanO := EmptyObject(schema)
		if res := t.callTo(src, &cleanO); res.Panicked || len(res.errs()) > 0 {
			r.outcome("to/uncorrupted-run-failed")
			continue
		}
		cleanFlat := map[string]string{}
		flattenO(cleanO, "", cleanFlat)
		seen := map[string]bool{}
		tprobe := &Chooser{}
		(&corruption{ch: tprobe}).corruptType(st, "")
		kt := k
		b := budget
		if bi > 0 {
			b = budget / 2
		}
		for kt > 1 && estimate(len(tprobe.Arity), kt) > b {
			kt--
		}
		_, capped := Explore(kt, b, func(ch *Chooser) {
			c := &corruption{ch: ch}
			ct := c.corruptType(st, "").(types.ObjectType)
			key := strings.Join(c.applied, ";")
			r.Evals++
			if seen[key] || !mine(base.name+key) {
				return
			}
			seen[key] = true
			w := OWitness{Kind: "type-corruption", Choices: append([]int{}, ch.Choices...), Extra: base.name + "|" + key, Ops: []string{"SetS(" + base.name + ")", "EmptyO", "Corrupt(AttrTypes)", "To"}}
			want := map[pdiag]bool{}
			touched := map[string]bool{}
			predictTo(t.Spec, reflect.ValueOf(src).Elem(), ct, "", want, touched)
			o := types.Object{Attrs: map[string]attr.Value{}, AttrTypes: ct.AttrTypes}
			res := t.callTo(src, &o)
			r.Transitions++
			if res.Panicked {
				r.outcome("to/panic")
				r.violate("to/panic", panicShape(t, src), fmt.Sprintf("CopyTo panics when attribute types are missing (source %s, removed %s): %s", base.name, key, res.Panic), w)
				return
			}
			if len(want) == 0 {
				r.outcome("to/no-diagnostic-predicted")
			} else {
				r.outcome("to/diagnostics-predicted")
			}
			judgeDiags(r, w, "to", errDiags(res.Diags), want)
			got := map[string]string{}
			flattenO(o, "", got)
			for _, dk := range diffKeys(cleanFlat, got) {
				if !underAny(dk, touched) {
					r.violate("to/other-attribute-not-written", "root", fmt.Sprintf("attribute %s differs from the uncorrupted run although its type is present (source %s, removed: %s)", dk, base.name, key), w)
					break
				}
			}
		})
		if capped {
			r.Capped = true
		}
		r.States += len(seen)
		r.Nontrivial += len(seen)
		bounds = append(bounds, fmt.Sprintf("%s<=%d", base.name, kt))
	}
	r.Bound += "To: sets of removed attribute types per source " + strings.Join(bounds, ",")
}

func init() { procs["C06"] = procC06 }
