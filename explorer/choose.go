package explorer

import "fmt"

// Chooser is the controlled source of every choice an execution makes
// (DESIGN.md §2.4): it replays a prefix and then answers the default (0).
type Chooser struct {
	prefix  []int
	Choices []int
	Arity   []int
}

// Choose returns the next choice among n alternatives.
func (c *Chooser) Choose(n int) int {
	if n <= 0 {
		panic("explorer: Choose with no alternatives")
	}
	i := len(c.Choices)
	v := 0
	if i < len(c.prefix) {
		v = c.prefix[i]
		if v >= n {
			panic(fmt.Sprintf("explorer: replay divergence at point %d: choice %d of %d", i, v, n))
		}
	}
	c.Choices = append(c.Choices, v)
	c.Arity = append(c.Arity, n)
	return v
}

// Replay returns a chooser that replays the given complete choice vector.
func Replay(choices []int) *Chooser { return &Chooser{prefix: choices} }

// Explore enumerates every execution of run whose choice vector differs from
// the all-default vector in at most bound positions (bound < 0: unbounded, the
// full product). It returns the number of executions and whether the budget
// (max executions, 0 = none) was exhausted before the space was.
func Explore(bound int, budget int, run func(c *Chooser)) (n int, capped bool) {
	var rec func(prefix []int, dev int)
	rec = func(prefix []int, dev int) {
		if budget > 0 && n >= budget {
			capped = true
			return
		}
		c := &Chooser{prefix: prefix}
		run(c)
		n++
		if bound >= 0 && dev+1 > bound {
			return
		}
		for i := len(prefix); i < len(c.Choices); i++ {
			for alt := 1; alt < c.Arity[i]; alt++ {
				p := make([]int, i+1)
				copy(p, c.Choices[:i])
				p[i] = alt
				rec(p, dev+1)
				if capped {
					return
				}
			}
		}
	}
	rec(nil, 0)
	return n, capped
}
