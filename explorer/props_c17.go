package explorer

import (
	"fmt"
	"reflect"
	"sort"
	"strings"

	"github.com/hashicorp/terraform-plugin-framework/attr"
	"github.com/hashicorp/terraform-plugin-framework/tfsdk"
	"github.com/hashicorp/terraform-plugin-framework/types"

	"verif/spec"
	"verif/tfx"
)

func init() {
	// the CopyFrom hook writes the canonical full value through the pointer it is given
	tfx.Fill = func(ptr interface{}, null bool) {
		v := reflect.ValueOf(ptr)
		if v.Kind() != reflect.Ptr || v.IsNil() {
			return
		}
		if null {
			v.Elem().Set(reflect.Zero(v.Elem().Type()))
			return
		}
		b := &SBuilder{Ch: &Chooser{}, Base: BaseFull}
		b.Build(v.Elem(), "hook")
	}
	procs["C17"] = procC17
}

type customAt struct {
	a      *spec.Attr
	chain  string
	tfPath string
	elem   bool
}

func hasCustom(m *spec.Msg) bool {
	for _, a := range m.Attrs {
		if a.Kind == spec.Custom || (a.Msg != nil && hasCustom(a.Msg)) {
			return true
		}
	}
	return false
}

// expectedFromCalls lists the custom attributes a correct CopyFrom of o must delegate, with the current attribute value.
func expectedFromCalls(m *spec.Msg, o types.Object, sv reflect.Value, path string, elem bool, out *[]hookExpect) {
	for _, a := range m.Attrs {
		p := joinPath(path, a.Name)
		v, has := o.Attrs[a.Name]
		if a.Kind == spec.Custom {
			e := hookExpect{suffix: a.Suffix, path: p, value: v, has: has, elem: elem}
			if sv.IsValid() {
				if f, fs := goField(sv, a); fs == fsOK && f.CanAddr() {
					e.fieldAddr = f.Addr().Pointer()
					e.field = f
				}
			}
			*out = append(*out, e)
			continue
		}
		if a.Msg == nil || !has || nullOrUnknown(v) {
			continue
		}
		var f reflect.Value
		fs := fsNilEmbed
		if sv.IsValid() {
			f, fs = goField(sv, a)
		}
		switch x := v.(type) {
		case types.Object:
			sub := reflect.Value{}
			if fs == fsOK {
				sub = f
				if sub.Kind() == reflect.Ptr {
					if sub.IsNil() {
						sub = reflect.Value{}
					} else {
						sub = sub.Elem()
					}
				}
			}
			expectedFromCalls(a.Msg, x, sub, p, elem, out)
		case types.List:
			for i, e := range x.Elems {
				if eo, ok := e.(types.Object); ok && !eo.Null && !eo.Unknown {
					expectedFromCalls(a.Msg, eo, reflect.Value{}, fmt.Sprintf("%s[%d]", p, i), true, out)
				}
			}
		case types.Map:
			for _, k := range keysOf(x.Elems) {
				if eo, ok := x.Elems[k].(types.Object); ok && !eo.Null && !eo.Unknown {
					expectedFromCalls(a.Msg, eo, reflect.Value{}, p+"["+k+"]", true, out)
				}
			}
		}
	}
}

type hookExpect struct {
	suffix    string
	path      string
	value     attr.Value
	has       bool
	elem      bool
	fieldAddr uintptr
	field     reflect.Value
	attrType  attr.Type
}

// expectedToCalls lists the custom attributes a correct CopyTo of sv into o must delegate.
func expectedToCalls(m *spec.Msg, sv reflect.Value, o types.Object, ot types.ObjectType, path string, out *[]hookExpect) {
	for _, a := range m.Attrs {
		p := joinPath(path, a.Name)
		f, fs := goFieldZeroEmbed(sv, a) // a nil nullable embedded parent is written as a zero message
		cur, has := o.Attrs[a.Name]
		if a.Kind == spec.Custom {
			if fs == fsOK {
				*out = append(*out, hookExpect{suffix: a.Suffix, path: p, field: f, value: cur, has: has, attrType: ot.AttrTypes[a.Name]})
			}
			continue
		}
		if a.Msg == nil || fs != fsOK {
			continue
		}
		at := ot.AttrTypes[a.Name]
		switch a.Kind {
		case spec.Obj:
			if f.Kind() == reflect.Ptr {
				if f.IsNil() {
					continue
				}
				f = f.Elem()
			}
			sot, _ := at.(types.ObjectType)
			co, _ := cur.(types.Object)
			expectedToCalls(a.Msg, f, co, sot, p, out)
		case spec.ObjList:
			lt, _ := at.(types.ListType)
			sot, _ := lt.ElemType.(types.ObjectType)
			cl, _ := cur.(types.List)
			for i := 0; i < f.Len(); i++ {
				e := f.Index(i)
				if e.Kind() == reflect.Ptr {
					if e.IsNil() {
						continue
					}
					e = e.Elem()
				}
				var co types.Object
				if len(cl.Elems) == f.Len() {
					co, _ = cl.Elems[i].(types.Object)
				}
				expectedToCalls(a.Msg, e, co, sot, fmt.Sprintf("%s[%d]", p, i), out)
			}
		case spec.ObjMap:
			mt, _ := at.(types.MapType)
			sot, _ := mt.ElemType.(types.ObjectType)
			cm, _ := cur.(types.Map)
			ks := goKeys(f)
			for _, k := range ks {
				e := f.MapIndex(reflect.ValueOf(k))
				if e.Kind() == reflect.Ptr {
					if e.IsNil() {
						continue
					}
					e = e.Elem()
				} else {
					c := reflect.New(e.Type()).Elem()
					c.Set(e)
					e = c
				}
				co, _ := cm.Elems[k].(types.Object)
				expectedToCalls(a.Msg, e, co, sot, p+"["+k+"]", out)
			}
		}
	}
}

func callsOf(hook string) []tfx.Call {
	var out []tfx.Call
	for _, c := range tfx.Log {
		if c.Hook == hook {
			out = append(out, c)
		}
	}
	return out
}

func procC17(t *Target, tier string, r *Result) {
	if !hasCustom(t.Spec) {
		r.outcome("no-custom-attribute-in-case")
		return
	}
	// ---- schema: one GenSchema<S> call per custom attribute with the description and flags of the spec
	tfx.Log = nil
	schema, _ := t.Schema(bg)
	r.Transitions++
	var wantS, gotS []string
	var walk func(m *spec.Msg, attrs map[string]tfsdk.Attribute, parentChain, path string)
	walk = func(m *spec.Msg, attrs map[string]tfsdk.Attribute, parentChain, path string) {
		for _, a := range m.Attrs {
			p := joinPath(path, a.Name)
			sa, ok := attrs[a.Name]
			if a.Kind == spec.Custom {
				wantS = append(wantS, fmt.Sprintf("%s desc=%q req=%v opt=%v comp=%v sens=%v val=%v pm=%v", a.Suffix, strings.Join(a.DescTokens, " "), a.Required, !a.Required, a.Computed, a.Sensitive, a.Validators, a.PlanModifiers))
				if !ok {
					r.violate("schema/custom-attribute-missing", chain(parentChain, a), "no schema attribute "+p, nil)
					continue
				}
				if st, isS := sa.Type.(tfx.SentinelType); !isS || st.Suffix != a.Suffix || sa.MarkdownDescription != "sentinel:"+a.Suffix {
					r.violate("schema/entry-is-not-the-hook-result", chain(parentChain, a), fmt.Sprintf("schema entry %s is not what GenSchema%s returned (type %v)", p, a.Suffix, sa.Type), nil)
				} else {
					r.outcome("schema/hook-result-used")
				}
				continue
			}
			if a.Msg != nil && ok && sa.Attributes != nil {
				walk(a.Msg, sa.Attributes.GetAttributes(), chain(parentChain, a), p)
			}
		}
	}
	walk(t.Spec, schema.Attributes, "", "")
	for _, c := range callsOf("GenSchema") {
		a := c.Args[1].(tfsdk.Attribute)
		var vs, pms []string
		for _, v := range a.Validators {
			vs = append(vs, identOfValidator(v))
		}
		for _, v := range a.PlanModifiers {
			pms = append(pms, identOfPM(v))
		}
		gotS = append(gotS, fmt.Sprintf("%s desc=%q req=%v opt=%v comp=%v sens=%v val=%v pm=%v", c.Suffix, strings.Join(strings.Fields(a.Description), " "), a.Required, a.Optional, a.Computed, a.Sensitive, fmt.Sprint(vs), fmt.Sprint(pms)))
	}
	norm := func(l []string) string {
		l = append([]string{}, l...)
		for i := range l {
			l[i] = strings.ReplaceAll(l[i], "val=[]", "val=[]")
		}
		sort.Strings(l)
		return strings.Join(l, "\n")
	}
	if norm(wantS) != norm(gotS) {
		r.violate("schema/hook-arguments", "custom", fmt.Sprintf("GenSchema hooks were called with\n%s\nexpected\n%s", norm(gotS), norm(wantS)), map[string]string{"kind": "schema-call-log"})
	} else {
		r.outcome("schema/hook-arguments-ok")
	}
	st := schema.AttributeType().(types.ObjectType)
	t.schema = &schema

	// ---- CopyFrom: exactly one CopyFrom<S>(diags, current value, &field) per reached custom attribute
	full, _, err := t.buildO(&Chooser{}, OBaseKnownFull, oOpts{Admissible: true})
	if err != nil {
		r.HarnessErr = err.Error()
		return
	}
	checkFrom := func(obj types.Object, w interface{}, deleted map[string]bool) {
		tgt := t.New()
		tfx.Log = nil
		res := t.callFrom(CopyObj(obj), tgt)
		r.Transitions++
		if res.Panicked {
			r.outcome("from/panic")
			r.violate("from/panic", "custom", "CopyFrom panics on an object with custom attributes: "+res.Panic, w)
			return
		}
		var want []hookExpect
		expectedFromCalls(t.Spec, obj, reflect.ValueOf(tgt).Elem(), "", false, &want)
		got := callsOf("CopyFrom")
		if len(got) != len(want) {
			r.violate("from/hook-call-count", "custom", fmt.Sprintf("%d CopyFrom hook calls, %d custom attributes reached", len(got), len(want)), w)
			return
		}
		r.outcome(fmt.Sprintf("from/calls=%d", len(want)))
		used := make([]bool, len(got))
		for _, e := range want {
			// find the call that matches this expectation (map iteration order is free)
			idx := -1
			for i, c := range got {
				if used[i] || c.Suffix != e.suffix {
					continue
				}
				gv, _ := c.Args[1].(attr.Value)
				if e.has && (gv == nil || CanonO(gv) != CanonO(e.value)) {
					continue
				}
				if !e.has && gv != nil {
					continue
				}
				if e.fieldAddr != 0 && !e.elem {
					if p := reflect.ValueOf(c.Args[2]); p.Kind() != reflect.Ptr || p.Pointer() != e.fieldAddr {
						continue
					}
				}
				idx = i
				break
			}
			if idx < 0 {
				var seen []string
				for _, c := range got {
					gv, _ := c.Args[1].(attr.Value)
					seen = append(seen, "CopyFrom"+c.Suffix+"("+CanonO(gv)+")")
				}
				r.violate("from/hook-arguments", "custom", fmt.Sprintf("no CopyFrom%s call with the current value %s and the address of the field for %s; calls: %v", e.suffix, CanonO(e.value), e.path, seen), w)
				continue
			}
			used[idx] = true
			r.outcome("from/call-matched")
			if !e.has {
				// a missing attribute is still reported
				found := false
				for _, d := range res.errs() {
					if strings.Contains(d.Detail(), "missing") {
						found = true
					}
				}
				if !found {
					r.violate("from/missing-custom-attribute-not-reported", "custom", "no error diagnostic for the missing custom attribute "+e.path, w)
				} else {
					r.outcome("from/missing-reported")
				}
			}
		}
	}
	t.forEachO(tier, r, oOpts{Admissible: true, K: 1}, func(obj types.Object, w OWitness) {
		w.Ops = []string{"SetO", "FreshS", "From"}
		r.sample(w)
		checkFrom(obj, w, nil)
	})
	// deletion of each top-level custom attribute
	for _, a := range t.Spec.Attrs {
		if a.Kind == spec.Custom {
			o := CopyObj(full)
			delete(o.Attrs, a.Name)
			checkFrom(o, OWitness{Kind: "corruption", Extra: "delete " + a.Name, Object: CanonOValues(o)}, map[string]bool{a.Name: true})
		}
	}

	// ---- CopyTo: exactly one CopyTo<S>(diags, field value, attribute type, current value); result stored
	var prev *types.Object
	doTo := func(s interface{}, o types.Object, w interface{}, round int) (types.Object, bool) {
		before := CopyObj(o)
		var want []hookExpect
		expectedToCalls(t.Spec, reflect.ValueOf(s).Elem(), before, st, "", &want)
		tfx.Log = nil
		res := t.callTo(s, &o)
		r.Transitions++
		if res.Panicked {
			r.outcome("to/panic")
			r.violate("to/panic", "custom", "CopyTo panics on a value with custom fields: "+res.Panic, w)
			return o, false
		}
		got := callsOf("CopyTo")
		if len(got) != len(want) {
			r.violate("to/hook-call-count", "custom", fmt.Sprintf("%d CopyTo hook calls, %d custom fields reached", len(got), len(want)), w)
			return o, false
		}
		r.outcome(fmt.Sprintf("to/calls=%d/round=%d", len(want), round))
		used := make([]bool, len(got))
		for _, e := range want {
			idx := -1
			why := ""
			for i, c := range got {
				if used[i] || c.Suffix != e.suffix {
					continue
				}
				if a, b := exact(reflect.ValueOf(c.Args[1])), exact(e.field); a != b {
					why = "field value " + a + " vs " + b
					continue
				}
				at, _ := c.Args[2].(attr.Type)
				if e.attrType != nil && (at == nil || !at.Equal(e.attrType)) {
					why = fmt.Sprintf("attribute type %v vs %v", at, e.attrType)
					continue
				}
				cv, _ := c.Args[3].(attr.Value)
				if e.has && round >= 1 && !strings.Contains(e.path, "[") && (cv == nil || CanonO(cv) != CanonO(e.value)) {
					why = "current value " + CanonO(cv) + " vs " + CanonO(e.value)
					continue
				}
				if !e.has && cv != nil {
					why = "current value " + CanonO(cv) + " for an absent attribute"
					continue
				}
				idx = i
				break
			}
			if idx < 0 {
				r.violate("to/hook-arguments", "custom", fmt.Sprintf("no CopyTo%s call with (field value, attribute type, current value) of %s; last mismatch: %s", e.suffix, e.path, why), w)
				continue
			}
			used[idx] = true
			r.outcome("to/call-matched")
			if e.has && round >= 1 && !strings.Contains(e.path, "[") {
				switch {
				case e.value.IsUnknown():
					r.outcome("to/current-value-unknown-passed")
				case e.value.IsNull():
					r.outcome("to/current-value-null-passed")
				default:
					r.outcome("to/current-value-known-passed")
				}
			}
		}
		// the hook's return value is what the object holds (top-level custom attributes)
		for _, a := range t.Spec.Attrs {
			if a.Kind != spec.Custom {
				continue
			}
			sv, ok := o.Attrs[a.Name].(tfx.SentinelValue)
			if !ok {
				r.violate("to/hook-result-not-stored", "custom", fmt.Sprintf("attribute %s holds %s, not the value CopyTo%s returned", a.Name, CanonO(o.Attrs[a.Name]), a.Suffix), w)
				continue
			}
			if sv.Serial > tfx.Serial-len(got) && sv.Serial <= tfx.Serial {
				r.outcome("to/result-stored")
			} else {
				r.violate("to/hook-result-not-stored", "custom", fmt.Sprintf("attribute %s holds a stale hook result (#%d)", a.Name, sv.Serial), w)
			}
		}
		return o, true
	}
	// targets in the three other base states (null / unknown / known-zero attributes), decoded through the schema
	var baseTargets []types.Object
	var baseNames []string
	for _, b := range []int{OBaseNull, OBaseUnknown, OBaseKnownZero} {
		if o, _, err := t.buildO(&Chooser{}, b, oOpts{Admissible: true}); err == nil {
			baseTargets = append(baseTargets, o)
			baseNames = append(baseNames, map[int]string{OBaseNull: "null", OBaseUnknown: "unknown", OBaseKnownZero: "known-zero"}[b])
		}
	}
	t.forEachSOpt(tier, r, sOpts{K: 1}, func(s interface{}, w SWitness) {
		w.Ops = []string{"SetS", "EmptyO", "To"}
		if o, ok := doTo(s, EmptyObject(schema), w, 0); ok {
			oc := CopyObj(o)
			w.Ops = []string{"SetS", "SetO(own result)", "To"}
			doTo(s, CopyObj(oc), w, 1)
			if prev != nil {
				w.Ops = []string{"SetS", "SetO(previous result)", "To"}
				doTo(s, CopyObj(*prev), w, 1)
			}
			prev = &oc
		}
		for i, bo := range baseTargets {
			w.Ops = []string{"SetS", "SetO(" + baseNames[i] + " base object)", "To"}
			doTo(s, CopyObj(bo), w, 2+i)
		}
	})
	// one full source into every admissible object within one deviation of each base
	src, _ := t.buildSOpt(&Chooser{}, BaseFull, sOpts{})
	// a target whose attribute types lack a custom attribute: reported as a diagnostic and the hook of that
	// attribute is not called, whether or not the object still holds a current value for it (an empty
	// target, and the result of an earlier complete conversion with the type entry removed)
	{
		var targets []types.Object
		var names []string
		targets, names = append(targets, EmptyObject(schema)), append(names, "EmptyO")
		done := EmptyObject(schema)
		tfx.Log = nil
		if res := t.callTo(src, &done); !res.Panicked && len(res.errs()) == 0 {
			targets, names = append(targets, done), append(names, "SetO(own result)")
		}
		for _, a := range t.Spec.Attrs {
			if a.Kind != spec.Custom {
				continue
			}
			for ti, base := range targets {
				o := CopyObj(base)
				at := map[string]attr.Type{}
				for k, v := range o.AttrTypes {
					if k != a.Name {
						at[k] = v
					}
				}
				o.AttrTypes = at
				w := OWitness{Kind: "corruption", Extra: "delete type of " + a.Name, Object: CanonOValues(o), Ops: []string{"SetS(full)", names[ti], "DeleteAttrType(" + a.Name + ")", "To"}}
				var want []hookExpect
				expectedToCalls(t.Spec, reflect.ValueOf(src).Elem(), CopyObj(o), st, "", &want)
				n := 0
				for _, e := range want {
					if e.path != a.Name {
						n++
					}
				}
				before := CanonO(o.Attrs[a.Name])
				_, had := o.Attrs[a.Name]
				tfx.Log = nil
				res := t.callTo(src, &o)
				r.Transitions++
				if res.Panicked {
					r.violate("to/panic", "custom", "CopyTo panics when the type of a custom attribute is missing: "+res.Panic, w)
					continue
				}
				if len(res.errs()) == 0 {
					r.violate("to/missing-custom-attribute-not-reported", "custom", "no error diagnostic for the missing attribute type of "+a.Name, w)
					continue
				}
				if got := callsOf("CopyTo"); len(got) != n {
					r.violate("to/hook-called-for-missing-attribute", "custom", fmt.Sprintf("%d CopyTo hook calls, %d custom fields with a type reached", len(got), n), w)
					continue
				}
				if cur, has := o.Attrs[a.Name]; has != had || (has && CanonO(cur) != before) {
					r.violate("to/missing-attribute-overwritten", "custom", "attribute "+a.Name+" changed although its type is missing", w)
					continue
				}
				r.outcome("to/missing-reported/" + names[ti])
			}
		}
	}
	t.forEachO(tier, r, oOpts{Admissible: true, K: 1}, func(obj types.Object, w OWitness) {
		w.Ops = []string{"SetS(full)", "SetO", "To"}
		doTo(src, CopyObj(obj), w, 9)
	})
}
