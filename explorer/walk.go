package explorer

import (
	"reflect"

	"github.com/hashicorp/terraform-plugin-framework/attr"
	"github.com/hashicorp/terraform-plugin-framework/types"

	"verif/spec"
)

// Desc is the shape descriptor of one attribute (used in violation signatures).
func Desc(a *spec.Attr) string {
	s := ""
	switch a.Kind {
	case spec.Prim:
		s = "prim:" + a.GoT
		if a.Ptr {
			s += "*"
		}
	case spec.List:
		s = "list<" + a.GoT
		if a.Ptr {
			s += "*"
		}
		s += ">"
	case spec.Map:
		s = "map<" + a.GoT
		if a.Ptr {
			s += "*"
		}
		s += ">"
	case spec.Obj, spec.ObjList, spec.ObjMap:
		s = a.Kind
		if a.Ptr {
			s += "*"
		}
		if a.Msg != nil && a.Msg.Empty {
			s += "(empty)"
		}
	case spec.Custom:
		s = "custom"
	}
	if a.Placeholder {
		s = "placeholder"
	}
	if a.Oneof != "" {
		s += "@oneof"
	}
	for _, e := range a.Embed {
		if e.Nullable {
			s += "@embed*"
		} else {
			s += "@embed"
		}
	}
	return s
}

func chain(parent string, a *spec.Attr) string {
	if parent == "" {
		return Desc(a)
	}
	return parent + ">" + Desc(a)
}

// fieldState describes how the Go field of an attribute can be reached in a struct value.
type fieldState int

const (
	fsOK          fieldState = iota
	fsNilEmbed               // an embedded pointer on the way is nil
	fsInactive               // oneof holder holds another branch or nothing
	fsPlaceholder            // no Go field (empty message placeholder)
)

// goField resolves the Go field of attribute a inside struct value sv (addressable struct, not pointer).
func goField(sv reflect.Value, a *spec.Attr) (reflect.Value, fieldState) {
	return goFieldOpt(sv, a, false)
}

// goFieldZeroEmbed is goField for the writing direction: the fields of a nil nullable embedded
// message read as those of its zero value (CopyTo writes them as such).
func goFieldZeroEmbed(sv reflect.Value, a *spec.Attr) (reflect.Value, fieldState) {
	return goFieldOpt(sv, a, true)
}

func goFieldOpt(sv reflect.Value, a *spec.Attr, zeroEmbed bool) (reflect.Value, fieldState) {
	if a.Placeholder {
		return reflect.Value{}, fsPlaceholder
	}
	cur := sv
	for _, st := range a.Embed {
		f := cur.FieldByName(st.Go)
		if !f.IsValid() {
			panic("explorer: no embedded field " + st.Go + " in " + cur.Type().String())
		}
		if f.Kind() == reflect.Ptr {
			if f.IsNil() {
				if !zeroEmbed {
					return reflect.Value{}, fsNilEmbed
				}
				f = reflect.New(f.Type().Elem())
			}
			f = f.Elem()
		}
		cur = f
	}
	if a.Oneof != "" {
		h := cur.FieldByName(a.Oneof)
		if !h.IsValid() {
			panic("explorer: no oneof holder " + a.Oneof + " in " + cur.Type().String())
		}
		if h.IsNil() {
			return reflect.Value{}, fsInactive
		}
		w := h.Elem()
		if w.Kind() != reflect.Ptr || w.IsNil() || w.Elem().Type().Name() != a.OneofWrap {
			return reflect.Value{}, fsInactive
		}
		return w.Elem().Field(0), fsOK
	}
	f := cur.FieldByName(a.Go)
	if !f.IsValid() {
		panic("explorer: no field " + a.Go + " in " + cur.Type().String())
	}
	return f, fsOK
}

// oneofHolder returns the holder interface field of group g in sv (through embed steps of a).
func oneofHolder(sv reflect.Value, a *spec.Attr) (reflect.Value, bool) {
	cur := sv
	for _, st := range a.Embed {
		f := cur.FieldByName(st.Go)
		if f.Kind() == reflect.Ptr {
			if f.IsNil() {
				return reflect.Value{}, false
			}
			f = f.Elem()
		}
		cur = f
	}
	return cur.FieldByName(a.Oneof), true
}

// visit is called for every non-element attribute reachable through non-null
// objects (object side) and reachable structs (Go side).
type visit struct {
	A      *spec.Attr
	Chain  string
	TFPath string
	Val    attr.Value // nil if absent from Attrs
	Has    bool
	Field  reflect.Value
	FS     fieldState
	parent reflect.Value // the struct value the attribute's message is rendered from
}

// walkBoth walks message m over struct value sv and object o in parallel.
func walkBoth(m *spec.Msg, sv reflect.Value, o types.Object, parentChain, parentPath string, fn func(v visit)) {
	for _, a := range m.Attrs {
		v := visit{A: a, Chain: chain(parentChain, a), TFPath: joinPath(parentPath, a.Name), parent: sv}
		v.Val, v.Has = o.Attrs[a.Name]
		v.Field, v.FS = goField(sv, a)
		fn(v)
		if a.Kind == spec.Obj && a.Msg != nil && v.Has && v.FS == fsOK {
			ov, ok := v.Val.(types.Object)
			if !ok || ov.Null || ov.Unknown {
				continue
			}
			f := v.Field
			if f.Kind() == reflect.Ptr {
				if f.IsNil() {
					continue
				}
				f = f.Elem()
			}
			walkBoth(a.Msg, f, ov, v.Chain, v.TFPath, fn)
		}
	}
}

func joinPath(a, b string) string {
	if a == "" {
		return b
	}
	return a + "." + b
}

func isZeroScalar(f reflect.Value) bool {
	switch f.Kind() {
	case reflect.Slice: // bytes
		return f.Len() == 0
	case reflect.String:
		return f.String() == ""
	case reflect.Bool:
		return !f.Bool()
	case reflect.Int, reflect.Int32, reflect.Int64:
		return f.Int() == 0
	case reflect.Uint, reflect.Uint32, reflect.Uint64:
		return f.Uint() == 0
	case reflect.Float32, reflect.Float64:
		return f.Float() == 0
	}
	return f.IsZero()
}
