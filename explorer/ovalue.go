package explorer

import (
	"context"
	"fmt"
	"math/big"
	"sort"
	"strings"
	"time"

	"github.com/hashicorp/terraform-plugin-framework/attr"
	"github.com/hashicorp/terraform-plugin-framework/tfsdk"
	"github.com/hashicorp/terraform-plugin-framework/types"
	"github.com/hashicorp/terraform-plugin-go/tftypes"

	"verif/spec"
	"verif/tfx"
)

var bg = context.Background()

// Bases of the object enumeration (DESIGN.md §3.7).
const (
	OBaseNull = iota
	OBaseUnknown
	OBaseKnownZero
	OBaseKnownFull
	NumOBases
)

// OBuilder builds a tftypes.Value of the schema type from a chooser, walking
// the oracle's spec and the run-time schema type in parallel.
type OBuilder struct {
	Ch   *Chooser
	Base int
	// Admissible restricts to the plans C08 admits: at most one non-null
	// branch per oneof group, no null/unknown collection elements.
	Admissible bool
	// StrictOneof (with Admissible): every branch but the chosen one is null
	// (an unknown branch counts as "not null"); the chosen one may be unknown.
	StrictOneof bool
	// NoUnknown removes the unknown state (fully known earlier states).
	NoUnknown bool
	Points    []string
}

func (b *OBuilder) pick(path string, n, def int) int {
	c := b.Ch.Choose(n)
	b.Points = append(b.Points, path)
	return (c + def) % n
}

// node states
const (
	stNull = iota
	stUnknown
	stZero
	stFull
)

func (b *OBuilder) state(path string, elem bool) int {
	if elem && b.Admissible {
		// elements of an admissible plan: known zero, known full or unknown - never null
		d := 1
		if b.Base == OBaseKnownZero {
			d = 0
		}
		if b.NoUnknown {
			return stZero + b.pick(path, 2, d)
		}
		if b.Base == OBaseUnknown {
			d = 2
		}
		return []int{stZero, stFull, stUnknown}[b.pick(path, 3, d)]
	}
	if b.NoUnknown {
		dom := []int{stNull, stZero, stFull}
		d := map[int]int{OBaseNull: 0, OBaseUnknown: 0, OBaseKnownZero: 1, OBaseKnownFull: 2}[b.Base]
		return dom[b.pick(path, 3, d)]
	}
	return b.pick(path, 4, b.Base)
}

func sortedTypeKeys(m map[string]attr.Type) []string {
	ks := make([]string, 0, len(m))
	for k := range m {
		ks = append(ks, k)
	}
	sort.Strings(ks)
	return ks
}

func findAttr(m *spec.Msg, name string) *spec.Attr {
	if m == nil {
		return nil
	}
	for _, a := range m.Attrs {
		if a.Name == name {
			return a
		}
	}
	return nil
}

func primKnown(a *spec.Attr, t attr.Type, full bool, path string) interface{} {
	tt := t.TerraformType(bg)
	switch {
	case tt.Is(tftypes.Number):
		if a != nil && a.TF == "float64" {
			if full {
				return big.NewFloat(1.5)
			}
			return big.NewFloat(0)
		}
		if full {
			if a != nil && a.GoT == "enum" {
				return big.NewFloat(1)
			}
			return big.NewFloat(float64(2 + nameHash(path)%90))
		}
		return big.NewFloat(0)
	case tt.Is(tftypes.Bool):
		return full
	case tt.Is(tftypes.String):
		switch t.(type) {
		case tfx.TimeType:
			if full {
				return Instant.Format(time.RFC3339Nano)
			}
			return time.Time{}.Format(time.RFC3339Nano)
		case tfx.DurationType:
			if full {
				return (90 * time.Minute).String()
			}
			return time.Duration(0).String()
		}
		if full {
			return "v" + lastSeg(path)
		}
		return ""
	}
	panic(fmt.Sprintf("explorer: no known value for %s at %s", tt, path))
}

// Value builds the value of one attribute node.
func (b *OBuilder) Value(a *spec.Attr, t attr.Type, path string, elem bool, force int) tftypes.Value {
	tt := t.TerraformType(bg)
	st := force
	if st < 0 {
		st = b.state(path, elem)
	}
	switch st {
	case stNull:
		return tftypes.NewValue(tt, nil)
	case stUnknown:
		return tftypes.NewValue(tt, tftypes.UnknownValue)
	}
	full := st == stFull
	var sub *spec.Msg
	if a != nil {
		sub = a.Msg
	}
	switch x := t.(type) {
	case types.ObjectType:
		return b.Object(sub, x, path)
	case types.ListType:
		n := 0
		if full {
			n = 2 + b.pick(path+"/len", 3, 0) // 2,3,1
			if n == 4 {
				n = 1
			}
		}
		es := make([]tftypes.Value, n)
		for i := range es {
			es[i] = b.Value(elemAttr(a), x.ElemType, fmt.Sprintf("%s[%d]", path, i), true, -1)
		}
		return tftypes.NewValue(tt, es)
	case types.MapType:
		keys := []string{}
		if full {
			keys = [][]string{{"k1", "k2"}, {"k1"}, {"k2", "k3"}}[b.pick(path+"/keys", 3, 0)]
		}
		es := map[string]tftypes.Value{}
		for _, k := range keys {
			es[k] = b.Value(elemAttr(a), x.ElemType, path+"["+k+"]", true, -1)
		}
		return tftypes.NewValue(tt, es)
	}
	return tftypes.NewValue(tt, primKnown(a, t, full, path))
}

// elemAttr is the pseudo attribute describing the elements of a list/map attribute.
func elemAttr(a *spec.Attr) *spec.Attr {
	if a == nil {
		return nil
	}
	e := *a
	e.Oneof = ""
	switch a.Kind {
	case spec.List, spec.Map:
		e.Kind = spec.Prim
	case spec.ObjList, spec.ObjMap:
		e.Kind = spec.Obj
	}
	return &e
}

// Object builds a known object value for message m of type t.
func (b *OBuilder) Object(m *spec.Msg, t types.ObjectType, path string) tftypes.Value {
	vals := map[string]tftypes.Value{}
	// oneof groups in admissible mode
	active := map[string]string{} // group -> attribute name that is known ("" none)
	grouped := map[string]bool{}
	if b.Admissible && m != nil {
		groups := map[string][]*spec.Attr{}
		var order []string
		for _, a := range m.Attrs {
			if a.Oneof != "" {
				if _, ok := groups[a.Oneof]; !ok {
					order = append(order, a.Oneof)
				}
				groups[a.Oneof] = append(groups[a.Oneof], a)
			}
		}
		sort.Strings(order)
		for _, g := range order {
			as := groups[g]
			sort.Slice(as, func(i, j int) bool { return as[i].Name < as[j].Name })
			d := 0
			if b.Base == OBaseKnownZero || b.Base == OBaseKnownFull || (b.StrictOneof && b.Base == OBaseUnknown) {
				d = 1
			}
			c := b.pick(path+"/oneof:"+g, len(as)+1, d)
			if c > 0 {
				active[g] = as[c-1].Name
			}
			for _, a := range as {
				grouped[a.Name] = true
			}
		}
	}
	for _, name := range sortedTypeKeys(t.AttrTypes) {
		at := t.AttrTypes[name]
		a := findAttr(m, name)
		p := path + "." + name
		if a != nil && grouped[name] {
			if active[a.Oneof] == name {
				d := 1
				if b.Base == OBaseKnownZero {
					d = 0
				}
				if b.StrictOneof && !b.NoUnknown {
					// known-full, known-zero or unknown
					c := b.pick(p, 3, map[int]int{OBaseKnownZero: 1, OBaseUnknown: 2}[b.Base])
					vals[name] = b.Value(a, at, p, false, []int{stFull, stZero, stUnknown}[c])
				} else {
					vals[name] = b.Value(a, at, p, false, stZero+b.pick(p, 2, d))
				}
			} else if b.StrictOneof {
				vals[name] = b.Value(a, at, p, false, stNull)
			} else {
				d := 0
				if b.Base == OBaseUnknown && !b.NoUnknown {
					d = 1
				}
				n := 2
				if b.NoUnknown {
					n = 1
				}
				vals[name] = b.Value(a, at, p, false, stNull+b.pick(p, n, d%n))
			}
			continue
		}
		vals[name] = b.Value(a, at, p, false, -1)
	}
	return tftypes.NewValue(t.TerraformType(bg), vals)
}

// Decode turns a raw value into a types.Object the way the framework does for plan/state/config.
func Decode(schema tfsdk.Schema, raw tftypes.Value) (types.Object, error) {
	var o types.Object
	diags := tfsdk.Plan{Schema: schema, Raw: raw}.Get(bg, &o)
	if diags.HasError() {
		return o, fmt.Errorf("framework decode: %v", diags)
	}
	return o, nil
}

// EmptyObject is an object that carries the schema's attribute types and no values.
func EmptyObject(schema tfsdk.Schema) types.Object {
	ot := schema.AttributeType().(types.ObjectType)
	return types.Object{Attrs: map[string]attr.Value{}, AttrTypes: ot.AttrTypes}
}

// ---------------------------------------------------------------------------
// canonical form, deep copy

func flags(null, unknown bool) string {
	s := ""
	if null {
		s += "N"
	}
	if unknown {
		s += "U"
	}
	return s
}

// CanonO renders an attr.Value tree completely: Go type of every node, flags,
// payloads even under Null/Unknown, nil vs empty containers, type maps.
func CanonO(v attr.Value) string {
	var sb strings.Builder
	canonO(&sb, v, true)
	return sb.String()
}

// CanonOValues is CanonO without the AttrTypes/ElemType annotations.
func CanonOValues(v attr.Value) string {
	var sb strings.Builder
	canonO(&sb, v, false)
	return sb.String()
}

func canonO(sb *strings.Builder, v attr.Value, withTypes bool) {
	switch x := v.(type) {
	case nil:
		sb.WriteString("<nil>")
	case types.Object:
		sb.WriteString("O" + flags(x.Null, x.Unknown))
		if x.Attrs == nil {
			sb.WriteString("{nil}")
		} else {
			ks := make([]string, 0, len(x.Attrs))
			for k := range x.Attrs {
				ks = append(ks, k)
			}
			sort.Strings(ks)
			sb.WriteString("{")
			for _, k := range ks {
				sb.WriteString(k + "=")
				canonO(sb, x.Attrs[k], withTypes)
				sb.WriteString(";")
			}
			sb.WriteString("}")
		}
		if withTypes {
			sb.WriteString("T(")
			if x.AttrTypes == nil {
				sb.WriteString("nil")
			}
			for _, k := range sortedTypeKeys(x.AttrTypes) {
				sb.WriteString(k + ":" + typeString(x.AttrTypes[k]) + ";")
			}
			sb.WriteString(")")
		}
	case types.List:
		sb.WriteString("L" + flags(x.Null, x.Unknown))
		if x.Elems == nil {
			sb.WriteString("[nil]")
		} else {
			sb.WriteString("[")
			for _, e := range x.Elems {
				canonO(sb, e, withTypes)
				sb.WriteString(",")
			}
			sb.WriteString("]")
		}
		if withTypes {
			sb.WriteString("T(" + typeString(x.ElemType) + ")")
		}
	case types.Map:
		sb.WriteString("M" + flags(x.Null, x.Unknown))
		if x.Elems == nil {
			sb.WriteString("[nil]")
		} else {
			ks := make([]string, 0, len(x.Elems))
			for k := range x.Elems {
				ks = append(ks, k)
			}
			sort.Strings(ks)
			sb.WriteString("[")
			for _, k := range ks {
				fmt.Fprintf(sb, "%q=", k)
				canonO(sb, x.Elems[k], withTypes)
				sb.WriteString(",")
			}
			sb.WriteString("]")
		}
		if withTypes {
			sb.WriteString("T(" + typeString(x.ElemType) + ")")
		}
	case types.String:
		fmt.Fprintf(sb, "S%s(%q)", flags(x.Null, x.Unknown), x.Value)
	case types.Int64:
		fmt.Fprintf(sb, "I%s(%d)", flags(x.Null, x.Unknown), x.Value)
	case types.Float64:
		fmt.Fprintf(sb, "F%s(%x)", flags(x.Null, x.Unknown), x.Value)
	case types.Bool:
		fmt.Fprintf(sb, "B%s(%v)", flags(x.Null, x.Unknown), x.Value)
	case tfx.TimeValue:
		sb.WriteString("Tm" + flags(x.Null, x.Unknown) + "(")
		renderTime(sb, x.Value)
		sb.WriteString("," + x.Format + ")")
	case tfx.DurationValue:
		fmt.Fprintf(sb, "D%s(%d)", flags(x.Null, x.Unknown), int64(x.Value))
	case tfx.SentinelValue:
		fmt.Fprintf(sb, "X%s(%s,%q)", flags(x.Null, x.Unknown), x.Suffix, x.Payload)
	default:
		fmt.Fprintf(sb, "?%T(%v)", v, v)
	}
}

func typeString(t attr.Type) string {
	if t == nil {
		return "<niltype>"
	}
	switch x := t.(type) {
	case types.ObjectType:
		var sb strings.Builder
		sb.WriteString("obj{")
		for _, k := range sortedTypeKeys(x.AttrTypes) {
			sb.WriteString(k + ":" + typeString(x.AttrTypes[k]) + ";")
		}
		sb.WriteString("}")
		return sb.String()
	case types.ListType:
		return "list<" + typeString(x.ElemType) + ">"
	case types.MapType:
		return "map<" + typeString(x.ElemType) + ">"
	}
	return t.String()
}

// CopyO deep-copies an attr.Value tree (containers are fresh; type maps are shared, they are never written).
func CopyO(v attr.Value) attr.Value {
	switch x := v.(type) {
	case types.Object:
		if x.Attrs != nil {
			m := make(map[string]attr.Value, len(x.Attrs))
			for k, e := range x.Attrs {
				m[k] = CopyO(e)
			}
			x.Attrs = m
		}
		if x.AttrTypes != nil {
			m := make(map[string]attr.Type, len(x.AttrTypes))
			for k, e := range x.AttrTypes {
				m[k] = e
			}
			x.AttrTypes = m
		}
		return x
	case types.List:
		if x.Elems != nil {
			s := make([]attr.Value, len(x.Elems))
			for i, e := range x.Elems {
				s[i] = CopyO(e)
			}
			x.Elems = s
		}
		return x
	case types.Map:
		if x.Elems != nil {
			m := make(map[string]attr.Value, len(x.Elems))
			for k, e := range x.Elems {
				m[k] = CopyO(e)
			}
			x.Elems = m
		}
		return x
	}
	return v
}

// CopyObj is CopyO for a types.Object.
func CopyObj(o types.Object) types.Object { return CopyO(o).(types.Object) }
