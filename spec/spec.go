// Package spec is the oracle's expectation tree for one selected message: what
// attributes the generated schema and converters must expose, computed from
// the grammar term and the configuration term only (never from the plugin).
package spec

// Kind of an attribute.
const (
	Prim    = "prim"
	List    = "list"
	Map     = "map"
	Obj     = "obj"
	ObjList = "objlist"
	ObjMap  = "objmap"
	Custom  = "custom"
)

// EmbedStep is one embedded struct to traverse between the Go struct of the
// message and the struct that declares the field.
type EmbedStep struct {
	Go       string `json:"go"`
	Nullable bool   `json:"nullable"`
}

// Attr is one Terraform attribute that stems from a proto field.
type Attr struct {
	Name    string      `json:"name"`
	Go      string      `json:"go"`
	Embed   []EmbedStep `json:"embed,omitempty"`
	Path    string      `json:"path"`
	TypeKey string      `json:"typekey"`
	Kind    string      `json:"kind"`
	// TF is the element Terraform type: int64 float64 string bool time duration object.
	TF string `json:"tf"`
	// GoT is the Go element type class: int32 int64 uint32 uint64 float32
	// float64 bool string bytes enum time duration cast:<type> msg.
	GoT string `json:"got"`
	// Ptr: the (element) Go type is a pointer.
	Ptr bool `json:"ptr,omitempty"`
	// ByValueTemporal: time/duration held by value (no zero-is-null claim).
	ByValueTemporal bool   `json:"byval_temporal,omitempty"`
	Oneof           string `json:"oneof,omitempty"`      // Go name of the holder field
	OneofWrap       string `json:"oneof_wrap,omitempty"` // Go name of the wrapper type
	Msg             *Msg   `json:"msg,omitempty"`
	Placeholder     bool   `json:"placeholder,omitempty"`
	Suffix          string `json:"suffix,omitempty"`

	Required      bool     `json:"required,omitempty"`
	Computed      bool     `json:"computed,omitempty"`
	Sensitive     bool     `json:"sensitive,omitempty"`
	Validators    []string `json:"validators,omitempty"`
	PlanModifiers []string `json:"plan_modifiers,omitempty"`
	DescTokens    []string `json:"desc_tokens,omitempty"`
}

// Injected is an injected (schema only) attribute.
type Injected struct {
	Name          string   `json:"name"`
	Type          string   `json:"type"`
	Required      bool     `json:"required,omitempty"`
	Computed      bool     `json:"computed,omitempty"`
	Optional      bool     `json:"optional,omitempty"`
	Validators    []string `json:"validators,omitempty"`
	PlanModifiers []string `json:"plan_modifiers,omitempty"`
}

// Excluded is a Go field the schema does not describe.
type Excluded struct {
	Go string `json:"go"`
	// Oneof is the Go name of the holder when the excluded field is a oneof branch.
	Oneof string      `json:"oneof,omitempty"`
	Embed []EmbedStep `json:"embed,omitempty"`
}

// Msg is the expectation for one message occurrence.
type Msg struct {
	Proto  string   `json:"proto"` // proto message name
	GoName string   `json:"goname"`
	Path   string   `json:"path"`
	Attrs  []*Attr  `json:"attrs"`
	Oneofs []string `json:"oneofs,omitempty"` // Go holder names, declaration order
	Empty  bool     `json:"empty,omitempty"`
	// AllExcluded: the message has fields but the configuration excludes all of them
	AllExcluded bool       `json:"all_excluded,omitempty"`
	Injected    []Injected `json:"injected,omitempty"`
	Excluded    []Excluded `json:"excluded,omitempty"`
}
